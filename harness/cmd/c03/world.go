package main

import (
	"bytes"
	"encoding/json"
	"fmt"
	"strings"

	"github.com/canopy-network/canopy/bft"
	"github.com/canopy-network/canopy/fsm"
	"github.com/canopy-network/canopy/lib"
	"github.com/canopy-network/canopy/lib/crypto"

	"verifharness/env"
)

// ---------------------------------------------------------------------------------------
// block recipes

type recipeOut struct {
	txs      [][]byte
	approve  [][]byte // governance txs that the shared proposals.json must approve
	evidence []*bft.DoubleSignEvidence
	orderTx  []byte   // a create-order tx (its hash prefix becomes the order id once included)
	orderTxs [][]byte // create-order txs of the two-order recipes (ids appended to world.pair in inclusion order)
	signers  []int    // who signs this block's certificate (nil = the whole committee)
	vdf      string   // "" none | "bad" a proof that does not verify (the leader must drop it) | "good" a valid one
	twice    bool     // the leader builds its proposal twice at this height (a failed round in between); the second one is used
}

type recipe struct {
	name  string
	class string
	make  func(w *world, h uint64) recipeOut
}

func mustTx(tx lib.TransactionI, e lib.ErrorI) []byte {
	if e != nil {
		panic(e)
	}
	bz, e := lib.Marshal(tx)
	if e != nil {
		panic(e)
	}
	return bz
}

func sendFee(from, to int, amount, fee, height uint64) []byte {
	return mustTx(fsm.NewSendTransaction(env.BLS(from), env.Addr(env.BLS(to)), amount, env.NetworkID, env.ChainID, fee, height, ""))
}

// failing send: account 14 holds 50_000; the fee is affordable, fee+amount is not, so the
// transaction fails after the fee was deducted inside its own store txn.
func failSend(fee, height uint64) []byte { return sendFee(14, 11, 45_000, fee, height) }

const subject = 3 // the validator the staking recipes act on (never a node identity)

func valTx(f func(k crypto.PrivateKeyI, a crypto.AddressI, h uint64) (lib.TransactionI, lib.ErrorI)) func(w *world, h uint64) recipeOut {
	return func(w *world, h uint64) recipeOut {
		k := env.BLS(subject)
		return recipeOut{txs: [][]byte{mustTx(f(k, env.Addr(k), h))}}
	}
}

func orderIDHex(createTx []byte) string { return lib.BytesToString(crypto.Hash(createTx)[:20]) }

var recipes = []recipe{
	{"empty", "empty", func(w *world, h uint64) recipeOut { return recipeOut{} }},
	{"send", "send", func(w *world, h uint64) recipeOut { return recipeOut{txs: [][]byte{sendFee(10, 11, 1000, 10000, h)}} }},
	// the mempool orders by fee (descending), which pins the position of the failing transaction
	{"failFirst", "failing-tx-in-proposer-mempool", func(w *world, h uint64) recipeOut {
		return recipeOut{txs: [][]byte{failSend(10003, h), sendFee(10, 11, 1001, 10002, h), sendFee(12, 13, 1002, 10001, h)}}
	}},
	{"failMiddle", "failing-tx-in-proposer-mempool", func(w *world, h uint64) recipeOut {
		return recipeOut{txs: [][]byte{sendFee(10, 11, 1001, 10003, h), failSend(10002, h), sendFee(12, 13, 1002, 10001, h)}}
	}},
	{"failLast", "failing-tx-in-proposer-mempool", func(w *world, h uint64) recipeOut {
		return recipeOut{txs: [][]byte{sendFee(10, 11, 1001, 10003, h), sendFee(12, 13, 1002, 10002, h), failSend(10001, h)}}
	}},
	{"stake", "stake", func(w *world, h uint64) recipeOut {
		k := env.BLS(4)
		return recipeOut{txs: [][]byte{mustTx(fsm.NewStakeTx(k, k.PublicKey().Bytes(), env.Addr(k), "tcp://v4", []uint64{env.ChainID}, 500_000, env.NetworkID, env.ChainID, 10000, h, false, true, ""))}}
	}},
	{"editStake", "edit-stake", valTx(func(k crypto.PrivateKeyI, a crypto.AddressI, h uint64) (lib.TransactionI, lib.ErrorI) {
		return fsm.NewEditStakeTx(k, a, a, "tcp://v3", []uint64{env.ChainID}, 1_000_000+1000*h, env.NetworkID, env.ChainID, 10000, h, true, "")
	})},
	{"pause", "pause", valTx(func(k crypto.PrivateKeyI, a crypto.AddressI, h uint64) (lib.TransactionI, lib.ErrorI) {
		return fsm.NewPauseTx(k, a, env.NetworkID, env.ChainID, 10000, h, "")
	})},
	{"unpause", "unpause", valTx(func(k crypto.PrivateKeyI, a crypto.AddressI, h uint64) (lib.TransactionI, lib.ErrorI) {
		return fsm.NewUnpauseTx(k, a, env.NetworkID, env.ChainID, 10000, h, "")
	})},
	{"unstake", "unstake", valTx(func(k crypto.PrivateKeyI, a crypto.AddressI, h uint64) (lib.TransactionI, lib.ErrorI) {
		return fsm.NewUnstakeTx(k, a, env.NetworkID, env.ChainID, 10000, h, "")
	})},
	{"createOrder", "create-order", func(w *world, h uint64) recipeOut {
		tx := mustTx(fsm.NewCreateOrderTx(env.BLS(12), 5000, 7000, env.ChainID, nil, env.Addr(env.BLS(12)).Bytes(), env.NetworkID, env.ChainID, 10000, h, ""))
		return recipeOut{txs: [][]byte{tx}, orderTx: tx}
	}},
	{"editOrder", "edit-order", func(w *world, h uint64) recipeOut {
		return recipeOut{txs: [][]byte{mustTx(fsm.NewEditOrderTx(env.BLS(12), w.orderID(), 6000, 8000, env.ChainID, nil, env.Addr(env.BLS(12)).Bytes(), env.NetworkID, env.ChainID, 10000, h, ""))}}
	}},
	{"deleteOrder", "delete-order", func(w *world, h uint64) recipeOut {
		return recipeOut{txs: [][]byte{mustTx(fsm.NewDeleteOrderTx(env.BLS(12), w.orderID(), env.ChainID, env.NetworkID, env.ChainID, 10000, h, ""))}}
	}},
	{"subsidy", "subsidy", func(w *world, h uint64) recipeOut {
		return recipeOut{txs: [][]byte{mustTx(fsm.NewSubsidyTx(env.BLS(13), 2500, env.ChainID, nil, env.NetworkID, env.ChainID, 10000, h, ""))}}
	}},
	{"changeParam", "approved-change-parameter", func(w *world, h uint64) recipeOut {
		tx := mustTx(fsm.NewChangeParamTxUint64(env.BLS(0), fsm.ParamSpaceVal, fsm.ParamMaxPauseBlocks, 4380+h, 1, 1000, env.NetworkID, env.ChainID, 10000, h, ""))
		return recipeOut{txs: [][]byte{tx}, approve: [][]byte{tx}}
	}},
	{"daoTransfer", "approved-dao-transfer", func(w *world, h uint64) recipeOut {
		tx := mustTx(fsm.NewDAOTransferTx(env.BLS(0), 3, 1, 1000, env.NetworkID, env.ChainID, 10000, h, false, ""))
		return recipeOut{txs: [][]byte{tx}, approve: [][]byte{tx}}
	}},
	// a governance change that passes the stateless checks and the vote but is refused by the parameter
	// sanity check AFTER the cached parameter object was modified; the unstake behind it (lower fee) reads
	// that parameter. Only the proposer ever executes the failing transaction.
	{"failParamThenUnstake", "failing-param-change-in-proposer-mempool", func(w *world, h uint64) recipeOut {
		bad := mustTx(fsm.NewChangeParamTxUint64(env.BLS(0), fsm.ParamSpaceVal, fsm.ParamUnstakingBlocks, 0, 1, 1000, env.NetworkID, env.ChainID, 10003, h, ""))
		k := env.BLS(subject)
		un := mustTx(fsm.NewUnstakeTx(k, env.Addr(k), env.NetworkID, env.ChainID, 10001, h, ""))
		return recipeOut{txs: [][]byte{bad, un}, approve: [][]byte{bad}}
	}},
	{"failPenaltyThenSend", "failing-param-change-in-proposer-mempool", func(w *world, h uint64) recipeOut {
		bad := mustTx(fsm.NewChangeParamTxUint64(env.BLS(0), fsm.ParamSpaceVal, fsm.ParamEarlyWithdrawalPenalty, 150, 1, 1000, env.NetworkID, env.ChainID, 10003, h, ""))
		return recipeOut{txs: [][]byte{bad, sendFee(10, 11, 1003, 10001, h)}, approve: [][]byte{bad}}
	}},
	// the certificate of this block is signed by a minimal quorum: the next block's begin-block sees a
	// non-signer (reward percents reduced in place, non-sign counters)
	{"sendPartialQC", "certificate-with-non-signer", func(w *world, h uint64) recipeOut {
		return recipeOut{txs: [][]byte{sendFee(10, 11, 1004, 10000, h)}, signers: []int{0, 1, 2, 4}} // everybody but the subject (3): a quorum in every reachable committee
	}},
	// >= 16 pending state writes make Store.Root() take the parallel tree commit
	{"manyWrites", "parallel-smt-commit", func(w *world, h uint64) recipeOut {
		var o recipeOut
		for i := 0; i < 10; i++ {
			o.txs = append(o.txs, sendFee(10, 30+i, 100+uint64(i), 10000, h))
		}
		return o
	}},
	// certificate results carrying a slash (double-sign evidence against the subject) next to the reward
	{"rewardSlash", "results-with-reward-and-slash", func(w *world, h uint64) recipeOut {
		return recipeOut{txs: [][]byte{sendFee(10, 11, 999, 10000, h)}, evidence: w.doubleSignEvidence(h)}
	}},
	// two open sell orders, then two lock-order commands in ONE block, then two close-order commands in one block:
	// the certificate results of those blocks carry LISTS (lock / close orders) that the proposer derives from the
	// block's transactions and the order book (controller.HandleSwaps -> fsm.ProcessRootChainOrderBook) and every
	// replica must derive identically; the next block's begin-block applies them (HandleCommitteeSwaps)
	{"createTwoOrders", "create-two-orders", func(w *world, h uint64) recipeOut {
		t1 := mustTx(fsm.NewCreateOrderTx(env.BLS(12), 5100, 7100, env.ChainID, nil, env.Addr(env.BLS(12)).Bytes(), env.NetworkID, env.ChainID, 10002, h, ""))
		t2 := mustTx(fsm.NewCreateOrderTx(env.BLS(13), 5200, 7200, env.ChainID, nil, env.Addr(env.BLS(13)).Bytes(), env.NetworkID, env.ChainID, 10001, h, ""))
		return recipeOut{txs: [][]byte{t1, t2}, orderTxs: [][]byte{t1, t2}}
	}},
	{"lockTwoOrders", "two-lock-orders-in-one-block", func(w *world, h uint64) recipeOut {
		var o recipeOut
		for i, id := range w.pairIDs() {
			oid, _ := lib.StringToBytes(id)
			buyer := env.BLS(10 + i)
			o.txs = append(o.txs, mustTx(fsm.NewLockOrderTx(buyer, lib.LockOrder{OrderId: oid, ChainId: env.ChainID, BuyerReceiveAddress: env.Addr(buyer).Bytes(), BuyerSendAddress: env.Addr(buyer).Bytes()},
				env.NetworkID, env.ChainID, 20002-uint64(i), h)))
		}
		return o
	}},
	{"closeTwoOrders", "two-close-orders-in-one-block", func(w *world, h uint64) recipeOut {
		var o recipeOut
		for i, id := range w.pairIDs() {
			oid, _ := lib.StringToBytes(id)
			buyer, seller := env.BLS(10+i), env.BLS(12+i)
			o.txs = append(o.txs, mustTx(fsm.NewCloseOrderTx(buyer, lib.CloseOrder{OrderId: oid, ChainId: env.ChainID, CloseOrder: true}, env.Addr(seller), 7100+100*uint64(i),
				env.NetworkID, env.ChainID, 20002-uint64(i), h)))
		}
		return o
	}},
	// the bft module hands the leader a verifiable-delay proof: one that does not verify for the last block
	// (dropped by the leader, so the header carries none and the running total must not count it), a valid one,
	// and a valid one when the leader builds its proposal a second time at the same height
	{"sendBadVDF", "proposal-with-invalid-vdf", func(w *world, h uint64) recipeOut {
		return recipeOut{txs: [][]byte{sendFee(10, 11, 1005, 10000, h)}, vdf: "bad"}
	}},
	{"sendGoodVDF", "proposal-with-vdf", func(w *world, h uint64) recipeOut {
		return recipeOut{txs: [][]byte{sendFee(10, 11, 1006, 10000, h)}, vdf: "good"}
	}},
	{"reproposeGoodVDF", "second-proposal-at-one-height-with-vdf", func(w *world, h uint64) recipeOut {
		return recipeOut{txs: [][]byte{sendFee(10, 11, 1007, 10000, h)}, vdf: "good", twice: true}
	}},
}

func recipeByName(n string) int {
	for i, r := range recipes {
		if r.name == n {
			return i
		}
	}
	return -1
}

// ---------------------------------------------------------------------------------------

type world struct {
	g          *fsm.GenesisState
	A, B, R, S *env.Node
	lastOrder  string   // hex order id of the last create-order that made it into a block
	pair       []string // hex ids of the orders created by createTwoOrders, in inclusion order
}

// pairIDs: the two orders of createTwoOrders (unknown ids before they exist: the commands then name no order)
func (w *world) pairIDs() []string {
	if len(w.pair) >= 2 {
		return w.pair[len(w.pair)-2:]
	}
	return []string{strings.Repeat("00", 20), strings.Repeat("11", 20)}
}

func (w *world) nodes() []*env.Node { return []*env.Node{w.A, w.B, w.R, w.S} }

func (w *world) close() {
	for _, n := range w.nodes() {
		if n != nil {
			n.Close()
		}
	}
}

func (w *world) orderID() string {
	if w.lastOrder == "" {
		return strings.Repeat("00", 20)
	}
	return w.lastOrder
}

func genesis() *fsm.GenesisState {
	acc := map[int]uint64{14: 50_000}
	for _, k := range []int{0, 1, 2, 3, 4, 10, 11, 12, 13} {
		acc[k] = 10_000_000
	}
	var vals []env.ValSpec
	for k := 0; k < 4; k++ {
		vals = append(vals, env.ValSpec{Key: k, Stake: 1_000_000, OutputKey: -1})
	}
	g := env.NewGenesis(acc, vals, func(p *fsm.Params) { p.Validator.MinimumOrderSize = 1000 })
	return g
}

func newWorld(names ...string) (*world, error) {
	w := &world{g: genesis()}
	mk := func(name string, key int) (*env.Node, error) {
		return env.NewNode(w.g, env.NodeOpts{Name: name, Key: key, ApproveList: true})
	}
	var err error
	for _, n := range names {
		switch n {
		case "A":
			w.A, err = mk("A", 0)
		case "B":
			w.B, err = mk("B", 1)
		case "R":
			w.R, err = mk("R", 2)
		case "S":
			w.S, err = mk("S", 2)
		}
		if err != nil {
			w.close()
			return nil, err
		}
	}
	return w, nil
}

// doubleSignEvidence: the subject signed two different payloads in the same view (height h-1).
func (w *world) doubleSignEvidence(h uint64) []*bft.DoubleSignEvidence {
	if h < 3 {
		return nil // the root chain answers IsValidDoubleSigner from the last certificate, which needs a committed block
	}
	n := w.A
	vs, e := n.Committee(h - 1)
	if e != nil {
		return nil
	}
	mk := func(tag byte) *lib.QuorumCertificate {
		q := &lib.QuorumCertificate{
			Header:      &lib.View{NetworkId: env.NetworkID, ChainId: env.ChainID, Height: h - 1, RootHeight: h - 1, Round: 3, Phase: lib.Phase_PROPOSE_VOTE},
			BlockHash:   bytes.Repeat([]byte{tag}, crypto.HashSize),
			ResultsHash: bytes.Repeat([]byte{tag + 1}, crypto.HashSize),
			ProposerKey: env.BLS(0).PublicKey().Bytes(),
		}
		q, e2 := env.SignQC(vs, q, []int{subject})
		if e2 != nil {
			return nil
		}
		return q
	}
	a, b := mk(0x11), mk(0x33)
	if a == nil || b == nil {
		return nil // the subject is not in the committee any more
	}
	return []*bft.DoubleSignEvidence{{VoteA: a, VoteB: b}}
}

// ---------------------------------------------------------------------------------------
// what one block looked like on every path

type blockRec struct {
	Height   uint64   `json:"height"`
	Recipe   string   `json:"recipe"`
	Txs      [][]byte `json:"txs"`      // mempool content in submission order
	Approve  [][]byte `json:"approve"`  // governance txs approved in proposals.json
	Evidence [][]byte `json:"evidence"` // marshalled double-sign evidence handed to proposer and replicas
	RC       uint64   `json:"rc"`
	Msg      []byte   `json:"msg"` // wire form of the BlockMessage that was committed
	Header   []byte   `json:"header"`
	NoTime   string   `json:"no_time"` // header fields except time, hash and last certificate
	Results  []byte   `json:"results"`
	NumTxs   int      `json:"num_txs"`
	StateKey string   `json:"state_key"` // after commit
	Order    string   `json:"order,omitempty"`
	Slashes  int      `json:"slashes"`       // double signers named in the certificate results
	VDF      []byte   `json:"vdf,omitempty"` // the (JSON) verifiable-delay proof handed to the proposer (nil = none)
}

func headerNoTime(h *lib.BlockHeader) string {
	return fmt.Sprintf("height=%d net=%d numTxs=%d totalTxs=%d vdf=%d last=%x state=%x txroot=%x valroot=%x nextvalroot=%x proposer=%x",
		h.Height, h.NetworkId, h.NumTxs, h.TotalTxs, h.TotalVdfIterations, h.LastBlockHash, h.StateRoot, h.TransactionRoot, h.ValidatorRoot, h.NextValidatorRoot, h.ProposerAddress)
}

type problem struct {
	path string // which execution path disagreed
	what string
}

func approveFile(txs [][]byte) fsm.GovProposals {
	p := fsm.GovProposals{}
	for _, tx := range txs {
		p[crypto.HashString(tx)] = fsm.GovProposalWithVote{Proposal: json.RawMessage(`{}`), Approve: true}
	}
	return p
}

func (w *world) setApprove(txs [][]byte) error {
	for _, n := range w.nodes() {
		if n != nil {
			gp := approveFile(txs)
			if e := gp.SaveToFile(n.Dir); e != nil {
				return e
			}
		}
	}
	return nil
}

func evidenceOf(raw [][]byte) (*bft.ByzantineEvidence, error) {
	var ev []*bft.DoubleSignEvidence
	for _, bz := range raw {
		d := new(bft.DoubleSignEvidence)
		if e := lib.Unmarshal(bz, d); e != nil {
			return nil, e
		}
		ev = append(ev, d)
	}
	return &bft.ByzantineEvidence{DSE: bft.NewDSE(ev)}, nil
}

func oneLine(e lib.ErrorI) string {
	s := e.Error()
	if i := strings.Index(s, "Message:"); i >= 0 {
		s = strings.TrimSpace(s[i+8:])
	}
	return strings.ReplaceAll(strings.TrimSpace(s), "\n", " ")
}

// afterCommit checks a node that just committed the block: stored header hash, independently
// recomputed state root of the committed state, and full state dump.
func afterCommit(n *env.Node, rec *blockRec, hdr *lib.BlockHeader, path string) (ps []problem) {
	n.Enter()
	lh, e := n.LastHeader()
	if e != nil || lh == nil {
		return []problem{{path, fmt.Sprintf("no committed header readable: %v", e)}}
	}
	if !bytes.Equal(lh.Hash, hdr.Hash) || lh.Height != hdr.Height {
		ps = append(ps, problem{path, fmt.Sprintf("committed header %x@%d, proposed %x@%d", lh.Hash, lh.Height, hdr.Hash, hdr.Height)})
	}
	root, e := n.Store().Root()
	n.Ctrl.ResetFSM() // Root() caches the tree on the live store; a reset drops it again
	if e != nil {
		ps = append(ps, problem{path, "Store.Root() of the committed state: " + oneLine(e)})
	} else if !bytes.Equal(root, hdr.StateRoot) {
		ps = append(ps, problem{path, fmt.Sprintf("state root of the committed state %x, header says %x", root, hdr.StateRoot)})
	}
	k, e := env.StateKey(n.FSM())
	if e != nil {
		ps = append(ps, problem{path, "state dump: " + oneLine(e)})
	} else if rec.StateKey == "" {
		rec.StateKey = k
	} else if rec.StateKey != k {
		ps = append(ps, problem{path, fmt.Sprintf("state dump %s differs from the first committer's %s", k, rec.StateKey)})
	}
	return
}

// replicaValidate runs ValidateProposal on n and recomputes the certificate results on n's own FSM.
func replicaValidate(n *env.Node, rec *blockRec, p *env.Proposal, path string) (ps []problem) {
	br, e := n.ValidateProposal(p, 0, true)
	if e != nil {
		return []problem{{path, "ValidateProposal: " + oneLine(e)}}
	}
	blk := new(lib.Block)
	if e = lib.Unmarshal(p.BlockBytes, blk); e != nil {
		return []problem{{path, oneLine(e)}}
	}
	// the FSM still holds the applied block (bft keeps it for the commit): results as this node computes them
	own := n.Ctrl.NewCertificateResults(n.Ctrl.FSM, blk, br, p.Evidence, p.RCBuildHeight)
	bz, e := lib.Marshal(own)
	if e != nil {
		return []problem{{path, oneLine(e)}}
	}
	if !bytes.Equal(bz, rec.Results) {
		ps = append(ps, problem{path, fmt.Sprintf("certificate results differ byte-wise: replica %x, proposer %x", bz, rec.Results)})
	}
	return
}
