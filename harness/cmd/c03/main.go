// C03 — deterministic replicated execution: same prefix + same block => identical header
// and certificate results on every execution path.
//
// Level: model_checking (explicit-state BFS over sequences of block recipes; a transition =
// fresh nodes + replay of the recipe sequence + one more block; states de-duplicated by the
// full key/value dump of the committed state).
//
// Pass 1 (one worker process): four real controller-level nodes on the same prefix.
//
//	A  proposes from its mempool (ProduceProposal) and later commits its own block with
//	   blockResult=nil (replay inside CommitCertificate)
//	B  validates as a replica (ValidateProposal) - in the "dirty" variant after a speculative
//	   ValidateProposal of a DIFFERENT block (built by another proposer, one transaction of its
//	   own) whose state was left in the FSM - recomputes the
//	   certificate results on its own FSM, then commits with the cached block result
//	R  is restarted (every in-memory layer rebuilt from its database) before each block and
//	   commits with blockResult=nil; dirty variant: a stale cached result of another block
//	S  applies the block through the sync path (HandlePeerBlock(.., syncing=true))
//
// Pass 2 (another, fresh worker process): A' and B' replay the chain of pass 1 from its bytes;
// A' first proposes every block again from the same mempool bytes (header compared modulo
// block time), B' validates and recomputes the results; state dumps are compared with pass 1.
//
// Oracle: header hash, certificate-result bytes, recomputed state root and state dump are
// equal across all paths and both processes.
package main

import (
	"bytes"
	"encoding/json"
	"flag"
	"fmt"
	"os"
	"runtime/debug"
	"strings"
	"syscall"
	"time"

	"github.com/canopy-network/canopy/lib"
	"github.com/canopy-network/canopy/lib/crypto"

	"verifharness/env"
	"verifharness/mc"
)

type job struct {
	Pass   int        `json:"pass"`
	Path   []int      `json:"path"`
	Dirty  bool       `json:"dirty"`
	Blocks []blockRec `json:"blocks,omitempty"` // pass 2: what pass 1 committed
}

type result struct {
	OK         bool       `json:"ok"`
	Key        string     `json:"key"`
	Pid        int        `json:"pid"`
	Blocks     []blockRec `json:"blocks,omitempty"`
	Viols      []mc.Viol  `json:"viols,omitempty"`
	HarnessErr string     `json:"harness_err,omitempty"`
	CPUms      int64      `json:"cpu_ms"`
	Steps      int        `json:"steps"`
}

func cpuMs() int64 {
	var ru syscall.Rusage
	_ = syscall.Getrusage(syscall.RUSAGE_SELF, &ru)
	return (ru.Utime.Sec+ru.Stime.Sec)*1000 + int64(ru.Utime.Usec+ru.Stime.Usec)/1000
}

func names(path []int) []string {
	var o []string
	for _, r := range path {
		o = append(o, recipes[r].name)
	}
	return o
}

func viol(j job, blk int, ps []problem) (out []mc.Viol) {
	for _, p := range ps {
		cls := "?"
		if blk < len(j.Path) {
			cls = recipes[j.Path[blk]].class
		}
		variant := "clean"
		if j.Dirty {
			variant = "dirty"
		}
		out = append(out, mc.Viol{
			Sig:    fmt.Sprintf("C03:path[%s]:block[%s]", p.path, cls),
			What:   fmt.Sprintf("recipes %v (%s variant, pass %d), block %d: on path %q: %s", names(j.Path), variant, j.Pass, blk+1, p.path, p.what),
			Replay: map[string]any{"path": j.Path, "names": names(j.Path), "dirty": j.Dirty},
		})
	}
	return
}

// ---------------------------------------------------------------------------------------
// pass 1

func pass1(j job) (res result) {
	w, err := newWorld("A", "B", "R", "S")
	if err != nil {
		res.HarnessErr = err.Error()
		return
	}
	defer w.close()
	for i, ri := range j.Path {
		res.Steps++
		h := w.A.Height()
		out := recipes[ri].make(w, h)
		rec := blockRec{Height: h, Recipe: recipes[ri].name, Txs: out.txs, Approve: out.approve}
		for _, ev := range out.evidence {
			bz, e := lib.Marshal(ev)
			if e != nil {
				res.HarnessErr = e.Error()
				return
			}
			rec.Evidence = append(rec.Evidence, bz)
		}
		if err = w.setApprove(out.approve); err != nil {
			res.HarnessErr = err.Error()
			return
		}
		// R is re-opened from its database before every block
		restartErr := w.R.Restart()
		// a different block for the dirty variant: another proposer (R) builds a block with one
		// transaction of its own; replicas validate it speculatively and never commit it
		var other *env.Proposal
		if j.Dirty && restartErr == nil {
			w.R.SubmitTxs(sendFee(13, 12, 1, 10000, h))
			other, _ = w.R.Propose()
		}
		w.A.SubmitTxs(out.txs...)
		var vdf *crypto.VDF
		var e lib.ErrorI
		switch out.vdf {
		case "bad":
			vdf = &crypto.VDF{Proof: []byte("not a proof"), Output: []byte("not an output"), Iterations: 7}
		case "good":
			if vdf, e = w.A.GoodVDF(4); e != nil {
				res.HarnessErr = "vdf: " + e.Error()
				return
			}
		}
		if vdf != nil {
			rec.VDF, _ = json.Marshal(vdf)
		}
		if out.twice {
			if _, e = w.A.ProposeVDF(vdf.Copy(), out.evidence...); e != nil {
				res.Viols = append(res.Viols, viol(j, i, []problem{{"propose", "ProduceProposal (first of two): " + oneLine(e)}})...)
				return
			}
		}
		var p *env.Proposal
		p, e = w.A.ProposeVDF(vdf, out.evidence...)
		if e != nil {
			res.Viols = append(res.Viols, viol(j, i, []problem{{"propose", "ProduceProposal: " + oneLine(e)}})...)
			return
		}
		hdr := p.Block.BlockHeader
		rec.RC, rec.NumTxs, rec.NoTime = p.RCBuildHeight, len(p.Block.Transactions), headerNoTime(hdr)
		if p.Results != nil && p.Results.SlashRecipients != nil {
			rec.Slashes = len(p.Results.SlashRecipients.DoubleSigners)
		}
		rec.Header, _ = lib.Marshal(hdr)
		rec.Results, _ = lib.Marshal(p.Results)
		if out.orderTx != nil {
			for _, tx := range p.Block.Transactions {
				if bytes.Equal(tx, out.orderTx) {
					w.lastOrder = orderIDHex(tx)
				}
			}
		}
		for _, otx := range out.orderTxs {
			for _, tx := range p.Block.Transactions {
				if bytes.Equal(tx, otx) {
					w.pair = append(w.pair, orderIDHex(tx))
				}
			}
		}
		rec.Order = w.lastOrder
		if other != nil && bytes.Equal(other.Block.BlockHeader.Hash, hdr.Hash) {
			other = nil // the recipe added nothing: there is no different block to speculate on
		}
		// --- replica path (B)
		if other != nil {
			// speculative validation of another block; its state stays in the FSM (no round interrupt in between)
			if _, e = w.B.ValidateProposal(other, 2, true); e != nil {
				res.Viols = append(res.Viols, viol(j, i, []problem{{"validate-speculative", "ValidateProposal of the alternative block: " + oneLine(e)}})...)
				return
			}
		}
		var ps []problem
		ps = append(ps, replicaValidate(w.B, &rec, p, "validate")...)
		if len(ps) > 0 {
			res.Viols = append(res.Viols, viol(j, i, ps)...)
			return
		}
		qc, e := w.A.Certify(p, 0, out.signers, 0)
		if e != nil {
			res.HarnessErr = "certify: " + e.Error()
			return
		}
		msg := &lib.BlockMessage{ChainId: env.ChainID, BlockAndCertificate: qc, Time: 1_700_000_000_000_000}
		rec.Msg, e = lib.Marshal(msg)
		if e != nil {
			res.HarnessErr = e.Error()
			return
		}
		feed := func(n *env.Node, syncing bool, path string) {
			m := new(lib.BlockMessage)
			if e := lib.Unmarshal(rec.Msg, m); e != nil {
				ps = append(ps, problem{path, oneLine(e)})
				return
			}
			if e := n.HandlePeerBlock(m, syncing); e != nil {
				ps = append(ps, problem{path, "HandlePeerBlock: " + oneLine(e)})
				return
			}
			ps = append(ps, afterCommit(n, &rec, hdr, path)...)
		}
		// commit with the cached result (B validated this very block)
		feed(w.B, false, "commit-cached")
		// commit with blockResult=nil on the proposer
		feed(w.A, false, "commit-replay")
		// restart, then commit with blockResult=nil (dirty: a stale cached result of another block)
		if restartErr != nil {
			ps = append(ps, problem{"restart", "re-opening the node: " + restartErr.Error()})
		} else {
			if other != nil {
				if _, e = w.R.ValidateProposal(other, 2, true); e != nil {
					ps = append(ps, problem{"restart-speculative", oneLine(e)})
				}
				feed(w.R, false, "restart-commit-replay")
			} else {
				// the restarted node validated this very block, then its round was interrupted (the real
				// bft.RoundInterrupt: a missed leader message), and only then does the certified block arrive
				if _, e = w.R.ValidateProposal(p, 0, true); e != nil {
					ps = append(ps, problem{"restart-validate", oneLine(e)})
				}
				w.R.RoundInterrupt()
				feed(w.R, false, "restart-commit-after-round-interrupt")
			}
		}
		// sync path: the syncing node is handed ANOTHER valid version of the commit certificate (a different
		// +2/3 signer subset than the one the proposer stored and will embed in the next header); several
		// valid versions of a commit certificate exist in a network, the next block must execute identically
		altSigners := []int{0, 1, 2, 4}
		if out.signers != nil {
			altSigners = nil
		}
		if qcAlt, e2 := w.A.Certify(p, 0, altSigners, 0); e2 != nil {
			res.HarnessErr = "certify (other version): " + e2.Error()
			return
		} else if bz, e3 := lib.Marshal(&lib.BlockMessage{ChainId: env.ChainID, BlockAndCertificate: qcAlt, Time: 1_700_000_000_000_000}); e3 != nil {
			res.HarnessErr = e3.Error()
			return
		} else {
			saved := rec.Msg
			rec.Msg = bz
			feed(w.S, true, "sync-with-other-certificate-version")
			rec.Msg = saved
		}
		res.Blocks = append(res.Blocks, rec)
		if len(ps) > 0 {
			res.Viols = append(res.Viols, viol(j, i, ps)...)
			return
		}
	}
	if len(res.Blocks) > 0 {
		last := res.Blocks[len(res.Blocks)-1]
		res.Key, res.OK = fmt.Sprintf("%d|%s|%s|%d", w.A.Height(), last.StateKey, w.lastOrder != "", len(w.pair)), true
	} else {
		res.Key, res.OK = "genesis", true
	}
	return
}

// ---------------------------------------------------------------------------------------
// pass 2: another process re-executes the chain of pass 1

func pass2(j job) (res result) {
	w, err := newWorld("A", "B")
	if err != nil {
		res.HarnessErr = err.Error()
		return
	}
	defer w.close()
	for i, rec := range j.Blocks {
		res.Steps++
		rec := rec
		msg := new(lib.BlockMessage)
		if e := lib.Unmarshal(rec.Msg, msg); e != nil {
			res.HarnessErr = e.Error()
			return
		}
		qc := msg.BlockAndCertificate
		hdr := new(lib.BlockHeader)
		if e := lib.Unmarshal(rec.Header, hdr); e != nil {
			res.HarnessErr = e.Error()
			return
		}
		be, e0 := evidenceOf(rec.Evidence)
		if e0 != nil {
			res.HarnessErr = e0.Error()
			return
		}
		if err = w.setApprove(rec.Approve); err != nil {
			res.HarnessErr = err.Error()
			return
		}
		var ps []problem
		// proposer path again, from the same mempool bytes
		w.A.SubmitTxs(rec.Txs...)
		var vdf2 *crypto.VDF
		if rec.VDF != nil {
			vdf2 = new(crypto.VDF)
			if e := json.Unmarshal(rec.VDF, vdf2); e != nil {
				res.HarnessErr = e.Error()
				return
			}
		}
		p2, e := w.A.ProposeVDF(vdf2, be.DSE.Evidence...)
		if e != nil {
			ps = append(ps, problem{"propose@process2", "ProduceProposal: " + oneLine(e)})
		} else {
			if nt := headerNoTime(p2.Block.BlockHeader); nt != rec.NoTime {
				ps = append(ps, problem{"propose@process2", fmt.Sprintf("header (time aside) differs between processes:\n      process 1: %s\n      process 2: %s", rec.NoTime, nt)})
			}
			// (at a checkpoint height the results name the hash of the proposed block, which covers the header's wall-clock
			// time: the second process proposes at another time, so that one field is compared with the time-free header instead)
			if bz, _ := lib.Marshal(p2.Results); !bytes.Equal(noCheckpointHash(bz), noCheckpointHash(rec.Results)) {
				ps = append(ps, problem{"propose@process2", fmt.Sprintf("certificate results differ between processes: %x vs %x", rec.Results, bz)})
			}
		}
		// replica path on the bytes of process 1
		blk := new(lib.Block)
		if e := lib.Unmarshal(qc.Block, blk); e != nil {
			res.HarnessErr = e.Error()
			return
		}
		p := &env.Proposal{RCBuildHeight: rec.RC, BlockBytes: qc.Block, Block: blk, Results: qc.Results, Evidence: be}
		ps = append(ps, replicaValidate(w.B, &rec, p, "validate@process2")...)
		want := rec.StateKey
		for _, n := range []*env.Node{w.B, w.A} {
			m := new(lib.BlockMessage)
			_ = lib.Unmarshal(rec.Msg, m)
			path := "commit-cached@process2"
			if n == w.A {
				path = "commit-replay@process2"
			}
			if e := n.HandlePeerBlock(m, false); e != nil {
				ps = append(ps, problem{path, "HandlePeerBlock: " + oneLine(e)})
				continue
			}
			r2 := rec
			r2.StateKey = want
			ps = append(ps, afterCommit(n, &r2, hdr, path)...)
		}
		if len(ps) > 0 {
			res.Viols = append(res.Viols, viol(j, i, ps)...)
			return
		}
	}
	res.OK = true
	return
}

// noCheckpointHash re-encodes certificate results with the checkpoint's block hash blanked.
func noCheckpointHash(bz []byte) []byte {
	r := new(lib.CertificateResult)
	if err := lib.Unmarshal(bz, r); err != nil || r.Checkpoint == nil {
		return bz
	}
	r.Checkpoint.BlockHash = nil
	out, err := lib.Marshal(r)
	if err != nil {
		return bz
	}
	return out
}

func exec(j job) (res result) {
	c0 := cpuMs()
	defer func() {
		if p := recover(); p != nil {
			res.HarnessErr = fmt.Sprintf("panic: %v\n%s", p, debug.Stack())
		}
		res.CPUms = cpuMs() - c0
		res.Pid = os.Getpid()
	}()
	if j.Pass == 2 {
		return pass2(j)
	}
	return pass1(j)
}

// ---------------------------------------------------------------------------------------

func main() {
	if mc.IsWorker() {
		mc.ServeWorker(func(j job) result { return exec(j) })
	}
	only := flag.String("only", "", "comma separated recipe names: restrict the alphabet (mutant runs)")
	nworkers := flag.Int("workers", 0, "worker processes (0 = one per CPU)")
	r := mc.Start("C03", "model_checking", 70*time.Second, 27*time.Minute)
	r.Assumptions = []string{
		"nodes are driven through the controller's exported entry points in the order the bft/p2p listeners call them (env.Node); certificates are signed by the whole committee in force",
		"block time and transaction time stamps are the proposer's wall clock: inputs, carried as bytes to every other path; the second process compares the proposer's header modulo time",
		"restart = every in-memory layer of canopy (store object, FSM, mempool, controller, process-wide caches) rebuilt from the node's database; pebble itself stays open (C09 covers its durability)",
		"Go map iteration order and the 8 parallel SMT workers are NOT scheduled by this explorer: different orders are met only incidentally through the four nodes and the two processes (per-process MemHash seeds differ); worker schedules are C08's subject",
		"governance vote mode APPROVE_LIST with the same proposals.json on every node",
		"one world per worker process; process-wide block LRU and signature cache purged on every role switch",
	}
	if r.Replay != "" {
		var rp struct {
			Path  []int `json:"path"`
			Dirty bool  `json:"dirty"`
		}
		if err := r.LoadReplay(&rp); err != nil {
			fmt.Println("cannot load replay:", err)
		}
		for i := 0; i < 5; i++ {
			res := exec(job{Pass: 1, Path: rp.Path, Dirty: rp.Dirty})
			fmt.Printf("replay %d: ok=%v err=%s blocks=%d\n", i, res.OK, res.HarnessErr, len(res.Blocks))
			for _, b := range res.Blocks {
				fmt.Printf("   block %d recipe=%s offered=%d included=%d double_signers=%d %s\n", b.Height, b.Recipe, len(b.Txs), b.NumTxs, b.Slashes, b.NoTime)
			}
			for _, v := range res.Viols {
				r.OnViol(v)
			}
			if res.OK {
				res2 := exec(job{Pass: 2, Path: rp.Path, Dirty: rp.Dirty, Blocks: res.Blocks})
				fmt.Printf("   second execution: ok=%v err=%s\n", res2.OK, res2.HarnessErr)
				for _, v := range res2.Viols {
					r.OnViol(v)
				}
			}
		}
		r.Finish(map[string]any{"states": 1, "transitions": len(rp.Path), "traces_validated_against_impl": 1})
	}
	var alphabet []int
	for i := range recipes {
		if *only == "" || strings.Contains(","+*only+",", ","+recipes[i].name+",") {
			alphabet = append(alphabet, i)
		}
	}
	caps := []int{0, 0, 6}
	if !r.Quick() {
		caps = []int{0, 0, 120, 60}
	}
	pool := mc.NewProcPool(*nworkers)
	// one long chain, in its own worker next to the search: 99 empty blocks, then the blocks of heights 100 and 101
	// (height 100 is a checkpoint height: controller.CheckpointFrequency; certificate results carry a checkpoint there),
	// through the same oracles, and re-executed by a second process
	type longOut struct {
		viols  []mc.Viol
		err    string
		blocks int
		done   bool
	}
	longCh := make(chan longOut, 1)
	if *only == "" {
		go func() {
			var o longOut
			path := make([]int, 0, 101)
			for i := 0; i < 99; i++ {
				path = append(path, recipeByName("empty"))
			}
			path = append(path, recipeByName("send"), recipeByName("send"))
			lp := mc.NewProcPool(1)
			res, crashed := mc.Map[job, result](lp, []job{{Pass: 1, Path: path}}, r.Expired)
			switch {
			case crashed[0]:
				o.err = "worker died"
			case res[0] == nil:
				o.err = "not finished before the soft deadline"
			case res[0].HarnessErr != "":
				o.err = res[0].HarnessErr
			default:
				o.viols, o.blocks, o.done = res[0].Viols, len(res[0].Blocks), res[0].OK
				if res[0].OK {
					res2, cr2 := mc.Map[job, result](lp, []job{{Pass: 2, Path: path, Blocks: res[0].Blocks}}, r.Expired)
					if !cr2[0] && res2[0] != nil {
						o.viols = append(o.viols, res2[0].Viols...)
						if res2[0].HarnessErr != "" {
							o.err = "second execution: " + res2[0].HarnessErr
						}
					} else {
						o.done = false
					}
				}
			}
			longCh <- o
		}()
	} else {
		longCh <- longOut{err: "skipped (-only)"}
	}
	frontier := [][]int{{}}
	seen := map[string]bool{}
	var states, harnessErrs, samePid int
	var transitions, steps, cpu, crossChecked int64
	var newPerDepth, expandedPerDepth []int
	recipeStats := map[string]map[string]int{}
	depthDone, complete := 0, true
	for d, cp := range caps {
		if len(frontier) == 0 {
			break
		}
		exp := frontier
		if cp > 0 && len(frontier) > cp {
			complete = false
			exp = nil
			for i := 0; i < cp; i++ {
				exp = append(exp, frontier[i*len(frontier)/cp])
			}
		}
		expandedPerDepth = append(expandedPerDepth, len(exp))
		var jobs []job
		for _, s := range exp {
			for _, ri := range alphabet {
				p := append(append([]int{}, s...), ri)
				jobs = append(jobs, job{Pass: 1, Path: p, Dirty: false}, job{Pass: 1, Path: p, Dirty: true})
			}
		}
		results, crashed := mc.Map[job, result](pool, jobs, r.Expired)
		var next [][]int
		var jobs2 []job
		pids := map[int]int{}
		missing := false
		for i, res := range results {
			if crashed[i] {
				r.Violation("C03:worker-crash", fmt.Sprintf("worker died twice on %v", names(jobs[i].Path)), jobs[i])
				continue
			}
			if res == nil {
				missing = true
				continue
			}
			transitions++
			steps += int64(res.Steps)
			cpu += res.CPUms
			if res.HarnessErr != "" {
				harnessErrs++
				if harnessErrs <= 3 {
					fmt.Fprintf(os.Stderr, "HARNESS ERROR %v: %s\n", names(jobs[i].Path), res.HarnessErr)
					r.Note("harness error on %v: %.300s", names(jobs[i].Path), res.HarnessErr)
				}
				continue
			}
			for _, v := range res.Viols {
				r.OnViol(v)
			}
			if !res.OK {
				continue
			}
			if n := len(res.Blocks); n > 0 {
				last := res.Blocks[n-1]
				if recipeStats[last.Recipe] == nil {
					recipeStats[last.Recipe] = map[string]int{}
				}
				recipeStats[last.Recipe]["blocks"]++
				recipeStats[last.Recipe]["txs_offered"] += len(last.Txs)
				recipeStats[last.Recipe]["txs_included"] += last.NumTxs
				recipeStats[last.Recipe]["double_signers_in_results"] += last.Slashes
			}
			pids[len(jobs2)] = res.Pid
			jobs2 = append(jobs2, job{Pass: 2, Path: jobs[i].Path, Dirty: jobs[i].Dirty, Blocks: res.Blocks})
			if jobs[i].Dirty || seen[res.Key] {
				continue
			}
			seen[res.Key] = true
			states++
			next = append(next, jobs[i].Path)
			if states%9 == 2 && len(res.Blocks) > 0 {
				last := res.Blocks[len(res.Blocks)-1]
				r.AddSample(map[string]any{"recipes": names(jobs[i].Path), "last_block": map[string]any{"height": last.Height, "txs_offered": len(last.Txs), "txs_included": last.NumTxs, "header": last.NoTime}})
			}
		}
		// second execution in other (fresh) processes: mc.Map starts new worker processes for every call
		res2, crashed2 := mc.Map[job, result](pool, jobs2, r.Expired)
		for i, res := range res2 {
			if crashed2[i] {
				r.Violation("C03:worker-crash", fmt.Sprintf("worker died twice on second execution of %v", names(jobs2[i].Path)), jobs2[i])
				continue
			}
			if res == nil {
				missing = true
				continue
			}
			steps += int64(res.Steps)
			cpu += res.CPUms
			if res.HarnessErr != "" {
				harnessErrs++
				if harnessErrs <= 3 {
					fmt.Fprintf(os.Stderr, "HARNESS ERROR (second execution) %v: %s\n", names(jobs2[i].Path), res.HarnessErr)
					r.Note("harness error on second execution of %v: %.300s", names(jobs2[i].Path), res.HarnessErr)
				}
				continue
			}
			if res.Pid == pids[i] {
				samePid++
			}
			crossChecked++
			for _, v := range res.Viols {
				r.OnViol(v)
			}
		}
		newPerDepth = append(newPerDepth, len(next))
		fmt.Printf("depth %d: expanded %d states x %d recipes x {clean,dirty} = %d transitions, %d new distinct states, %d chains re-executed in a second process (cpu so far %.0fs)\n",
			d+1, len(exp), len(alphabet), len(jobs), len(next), len(jobs2), float64(cpu)/1000)
		if missing {
			complete = false
			break
		}
		depthDone = d + 1
		frontier = next
	}
	lo := <-longCh
	for _, v := range lo.viols {
		r.OnViol(v)
	}
	if lo.err != "" {
		r.Note("long chain (heights 1..101): %s", lo.err)
	}
	fmt.Printf("long chain to the checkpoint height: blocks=%d complete=%v %s\n", lo.blocks, lo.done, lo.err)
	if samePid > 0 {
		r.Note("%d second executions ran in the same process as the first", samePid)
	}
	if harnessErrs > 0 || !complete {
		r.Exhaustive = false
	}
	var rn []string
	for _, i := range alphabet {
		rn = append(rn, recipes[i].name+" ("+recipes[i].class+")")
	}
	r.Finish(map[string]any{
		"states":                        states + 1,
		"transitions":                   transitions,
		"traces_validated_against_impl": crossChecked,
		"explanation":                   "a transition executes the whole recipe sequence on four real nodes (propose / validate[+speculative] / commit-cached / commit-replay / restart+commit-replay / sync) and compares header hash, certificate-result bytes, recomputed state root and state dump on every block; traces_validated counts the chains that were re-executed from their bytes in a second worker process (proposer path again modulo block time, replica path, both commit paths) and compared with the first",
		"block_steps":                   steps,
		"depth_completed":               depthDone,
		"new_states_per_depth":          newPerDepth,
		"states_expanded_per_depth":     expandedPerDepth,
		"frontier_caps":                 caps,
		"recipes":                       rn,
		"recipe_statistics":             recipeStats,
		"second_process_same_pid":       samePid,
		"worker_cpu_seconds":            float64(cpu) / 1000,
	})
}
