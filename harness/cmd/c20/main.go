// C20 — escrow, order-book and AMM accounting is exact.
//
// Explorer (c): replay-BFS over recipe sequences on real FSMs (env.Chain, direct path), every
// world alone in a worker process. Part A: order book of one own-root chain, the harness plays
// the committee. Part B: AMM pipeline between a root chain and a nested chain. See c20lib.
package main

import (
	"flag"
	"fmt"
	"os"
	"os/exec"
	"sort"
	"strings"
	"sync"
	"time"

	"github.com/canopy-network/canopy/lib"

	"verifharness/c20lib"
	"verifharness/mc"
)

// capsExe is the second build of this program (./check builds it as <this executable>caps) in which the three DEX
// batch capacities of lib/certificate.go are overlaid with c20lib.SmallCaps; "" if it is missing or was built otherwise.
func capsExe() string {
	exe, err := os.Executable()
	if err != nil {
		return ""
	}
	p := exe + "caps"
	if _, err = os.Stat(p); err != nil {
		return ""
	}
	out, err := exec.Command(p, "-capsinfo").Output()
	if err != nil || strings.TrimSpace(string(out)) != c20lib.SmallCaps {
		return ""
	}
	return p
}

// tag = "<part>|<config>|<quick|thorough>"
func route(j mc.BFSJob) mc.ExecResult {
	p := strings.Split(j.Tag, "|")
	thorough := p[2] == "thorough"
	switch p[0] {
	case "A":
		return c20lib.ExecA(p[1], thorough, j.Path)
	case "B":
		return c20lib.ExecB(p[1], thorough, j.Path)
	}
	return mc.ExecResult{Viols: []mc.Viol{{Sig: "C20:harness", What: "bad tag " + j.Tag}}}
}

type statSink struct {
	mu sync.Mutex
	m  map[string]int
}

func (s *statSink) add(k string) {
	s.mu.Lock()
	s.m[k]++
	s.mu.Unlock()
}

func main() {
	if mc.IsWorker() {
		mc.ServeWorker(route)
	}
	if len(os.Args) > 1 && os.Args[1] == "-capsinfo" {
		fmt.Println(lib.MaxDepositsPerDexBatch, lib.MaxWithdrawsPerDexBatch, lib.MaxOrdersPerDexBatch, lib.MaxOrdersSettledPerBlock)
		return
	}
	if len(os.Args) > 1 && os.Args[1] == "-probe" {
		probe()
		return
	}
	r := mc.Start("C20", "model_checking", 85*time.Second, 26*time.Minute)
	r.Assumptions = c20lib.Assumptions
	if r.Replay != "" {
		doReplay(r)
		return
	}
	stats := &statSink{m: map[string]int{}}
	onViol := func(v mc.Viol) {
		if v.Sig == "stat" {
			stats.add(v.What)
			return
		}
		r.OnViol(v)
	}
	pool := c20lib.NewPool(0)
	defer pool.Close()
	var capsPool *c20lib.Pool
	if p := capsExe(); p != "" {
		capsPool = c20lib.NewPool(0)
		capsPool.Exe = p
		defer capsPool.Close()
	} else {
		fmt.Println("NOTE: the small-batch-caps build (" + c20lib.SmallCaps + ") is not available; its searches are skipped")
	}
	cov := map[string]any{}
	var totalStates int
	var totalTrans int64
	var tables []map[string]any
	var notStarted []string
	total := 72 * time.Second
	if !r.Quick() {
		total = 26 * time.Minute
	}
	if f := flag.Lookup("budget"); f != nil {
		if d, e := time.ParseDuration(f.Value.String()); e == nil && d > 0 {
			total = d
		}
	}
	run := func(part, cfg string, depth int, names func(p []int) []string, numOps int, opsFor func(path []int, info string) []int, share float64) {
		tag := part + "|" + cfg + "|" + r.Tier
		t0 := time.Now()
		pool := pool
		if strings.HasSuffix(cfg, c20lib.CapsLabel) {
			if capsPool == nil {
				notStarted = append(notStarted, fmt.Sprintf("%s/%s depth %d (small-caps build missing)", part, cfg, depth))
				r.Exhaustive = false
				return
			}
			pool = capsPool
		}
		// a search may use at most `share` of the tier's budget, so that one deep search cannot starve the others
		own := t0.Add(time.Duration(float64(total) * share))
		stop := func() bool { return r.Expired() || (share > 0 && time.Now().After(own)) }
		st := mc.ReplayBFS(mc.BFSConfig{Tag: tag, NumOps: numOps, MaxDepth: depth, Workers: pool.N(), Exec: func(path []int) mc.ExecResult { return pool.Exec(tag, path) },
			OnViol: onViol, Stop: stop, OpsFor: opsFor})
		if st.States == 0 {
			notStarted = append(notStarted, fmt.Sprintf("%s/%s depth %d", part, cfg, depth))
			r.Exhaustive = false
			return
		}
		// a later, deeper search of the same (part,config) subsumes an earlier one: count it once
		row := map[string]any{"part": part, "config": cfg, "alphabet": numOps, "depth_bound": depth, "depth_completed": st.DepthDone,
			"states": st.States, "transitions": st.Transitions, "frontier_per_depth": st.Frontier, "stuttering_or_disabled": st.Disabled, "revisits": st.Revisits,
			"complete": st.Complete, "wall_s": time.Since(t0).Seconds()}
		replaced := false
		for i, old := range tables {
			if old["part"] == part && old["config"] == cfg {
				replaced = true
				if st.States >= old["states"].(int) {
					totalStates += st.States - old["states"].(int)
					totalTrans += st.Transitions - old["transitions"].(int64)
					row["subsumes_earlier_search_to_depth"] = old["depth_completed"]
					tables[i] = row
				}
			}
		}
		if !replaced {
			totalStates += st.States
			totalTrans += st.Transitions
			tables = append(tables, row)
		}
		if !st.Complete {
			r.Exhaustive = false
		}
		for _, p := range st.SamplePaths {
			r.AddSample(map[string]any{"part": part, "config": cfg, "recipes": names(p)})
		}
		fmt.Printf("part %s config=%s alphabet=%d depth=%d/%d states=%d transitions=%d frontier=%v stutter/disabled=%d revisits=%d complete=%v (%.1fs)\n",
			part, cfg, numOps, st.DepthDone, depth, st.States, st.Transitions, st.Frontier, st.Disabled, st.Revisits, st.Complete, time.Since(t0).Seconds())
	}
	thorough := !r.Quick()
	c20lib.Plan(thorough, run)
	cov["states"] = totalStates
	cov["transitions"] = totalTrans
	cov["traces_validated_against_impl"] = int(totalTrans)
	cov["explanation"] = "every transition is a replay of the recipe path on real fsm.StateMachine instances (env.Chain direct path: proposer ApplyBlock on a copy, replica ApplyBlock, IndexQC, IndexBlock, Commit) followed by the oracles on raw state scans and balance differences; there is no separate model trace"
	cov["per_part"] = tables
	cov["searches_not_started_before_deadline"] = notStarted
	ks := make([]string, 0, len(stats.m))
	for k := range stats.m {
		ks = append(ks, k)
	}
	sort.Strings(ks)
	oc := map[string]int{}
	for _, k := range ks {
		oc[k] = stats.m[k]
	}
	cov["transition_outcomes"] = oc
	cov["distinct_outcome_classes"] = len(oc)
	if capsPool != nil {
		cov["small_batch_caps_build"] = "searches whose configuration ends in " + c20lib.CapsLabel + " ran in workers built from the same tree with lib.MaxDepositsPerDexBatch / MaxWithdrawsPerDexBatch / MaxOrdersPerDexBatch / MaxOrdersSettledPerBlock overlaid to " + c20lib.SmallCaps + " (5000 / 5000 / 10000 / 250 cannot be reached by bounded search); the master verified the constants with -capsinfo"
	}
	cov["wiring"] = c20lib.Wiring
	cov["not_covered"] = c20lib.NotCovered
	cov["worker_crashes"] = pool.Crashes
	pool.Close()
	r.Finish(cov)
}

func doReplay(r *mc.Run) {
	var rp struct {
		Part   string   `json:"part"`
		Mode   string   `json:"mode"`
		Config string   `json:"config"`
		Ops    []string `json:"ops"`
	}
	if err := r.LoadReplay(&rp); err != nil {
		fmt.Println("cannot load replay:", err)
		r.Finish(map[string]any{"states": 1, "transitions": 1, "traces_validated_against_impl": 0})
	}
	n := 0
	for i := 0; i < 5; i++ {
		var res mc.ExecResult
		if rp.Part == "A" {
			res = c20lib.ExecA(rp.Mode, true, c20lib.PathA(rp.Ops))
		} else if strings.HasSuffix(rp.Config, c20lib.CapsLabel) {
			// found by the build with small batch capacities: replayed there
			p := capsExe()
			if p == "" {
				fmt.Println("the small-batch-caps build is not available (run through ./check, which builds it)")
				break
			}
			cp := c20lib.NewPool(1)
			cp.Exe = p
			res = cp.Exec("B|"+rp.Config+"|thorough", c20lib.PathB(rp.Config, rp.Ops))
			cp.Close()
		} else {
			res = c20lib.ExecB(rp.Config, true, c20lib.PathB(rp.Config, rp.Ops))
		}
		for _, v := range res.Viols {
			if v.Sig != "stat" {
				r.OnViol(v)
				n++
			}
		}
	}
	fmt.Printf("replayed %v 5 times: %d violation reports\n", rp.Ops, n)
	r.Finish(map[string]any{"states": 1, "transitions": len(rp.Ops), "traces_validated_against_impl": 1})
}

// probe: single sequential timing run (GOMAXPROCS=1 recommended) used to size the tiers.
func probe() {
	for _, f := range c20lib.Probes {
		f()
	}
}
