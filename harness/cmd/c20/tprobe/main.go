package main

import (
	"fmt"
	"os"
	"strings"

	"verifharness/c20lib"
)

// usage: tprobe <cfg> "op1;op2;..."   (part B)   or   tprobe A:<mode> "op1;op2"
func main() {
	c20lib.Debug = true
	cfg, ops := os.Args[1], strings.Split(os.Args[2], ";")
	if strings.HasPrefix(cfg, "A:") {
		res := c20lib.ExecA(cfg[2:], true, c20lib.PathA(ops))
		fmt.Printf("ok=%v viols:\n", res.OK)
		for _, v := range res.Viols {
			fmt.Printf("  %s: %s\n", v.Sig, v.What)
		}
		return
	}
	res := c20lib.ExecB(cfg, true, c20lib.PathB(cfg, ops))
	fmt.Printf("ok=%v viols:\n", res.OK)
	for _, v := range res.Viols {
		fmt.Printf("  %s: %s\n", v.Sig, v.What)
	}
}
