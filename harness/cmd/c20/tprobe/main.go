package main

import (
	"fmt"
	"os"
	"runtime/pprof"
	"syscall"
	"time"

	"verifharness/c20lib"
)

func cpu() time.Duration {
	var ru syscall.Rusage
	syscall.Getrusage(syscall.RUSAGE_SELF, &ru)
	return time.Duration(ru.Utime.Nano() + ru.Stime.Nano())
}

func main() {
	f, _ := os.Create("/tmp/c20t/cpu.prof")
	pprof.StartCPUProfile(f)
	for i := 0; i < 3; i++ {
		t0, c0 := time.Now(), cpu()
		c20lib.ExecB("1e3x1e3", false, []int{4, 0, 0})
		fmt.Println("execB wall", time.Since(t0), "cpu", cpu()-c0)
	}
	pprof.StopCPUProfile()
	f.Close()
}
