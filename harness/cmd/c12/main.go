// C12 — staking bookkeeping stays consistent and the chain never wedges itself.
//
// Explorer (c): explicit-state replay-BFS over sequences of BLOCK RECIPES (stake, edit-stake,
// pause, unpause, unstake, certificates with absent signers / double signers / reward splits,
// min-stake-up, max-committees-down, ...). Every path is executed on a fresh real store+FSM
// (one chain per worker process) through env.Chain.Step. After the last block of every path,
// and after every block of the forward probe:
//
//	(1) Supply.Staked / DelegatedOnly / CommitteeStaked[] / CommitteeDelegatedOnly[] equal the
//	    sums over a raw scan of the validator records;
//	(2) every unstaking marker (prefix 5) <-> a validator with exactly that UnstakingHeight and
//	    every paused marker (prefix 6) <-> a validator with exactly that MaxPausedHeight, both ways;
//	(3) no wedge: empty blocks are applied for every height up to 1 + the largest pending
//	    deferred height (finish-unstaking, max-pause and the unstaking it starts, non-sign window
//	    end), re-evaluated after every block; a block that cannot be applied is a violation.
//
// World, recipes and oracles live in verifharness/chainops (shared with C04).
package main

import (
	"time"

	"verifharness/chainops"
	"verifharness/mc"
)

func main() {
	if mc.IsWorker() {
		mc.ServeWorker(func(j mc.BFSJob) mc.ExecResult { return chainops.Exec(j.Tag, j.Path) })
	}
	r := mc.Start("C12", "model_checking", 80*time.Second, 27*time.Minute)
	r.Assumptions = chainops.Assumptions("C12")
	if r.Replay != "" {
		chainops.DoReplay(r)
		return
	}
	var plan []chainops.Search
	if r.Quick() {
		// ordered by value per unit of work: the deadline cuts the tail of this list on a busy machine
		plan = []chainops.Search{
			{World: "small", Alpha: "staking", Depth: 2}, {World: "dust", Alpha: "staking", Depth: 2}, {World: "small", Alpha: "staking", Depth: 3},
			{World: "longwin", Alpha: "staking", Depth: 3}, {World: "minstake", Alpha: "staking", Depth: 3},
			{World: "small", Alpha: "full", Depth: 2}, {World: "small/p1", Alpha: "staking", Depth: 2}, {World: "dust", Alpha: "staking", Depth: 3},
			{World: "small", Alpha: "staking", Depth: 4},
		}
	} else {
		plan = []chainops.Search{
			{World: "small", Alpha: "staking", Depth: 4}, {World: "dust", Alpha: "staking", Depth: 4}, {World: "small", Alpha: "full", Depth: 3},
			{World: "small/p1", Alpha: "staking", Depth: 4}, {World: "longwin", Alpha: "staking", Depth: 4}, {World: "minstake", Alpha: "staking", Depth: 4}, {World: "small", Alpha: "staking", Depth: 5}, // the near-2^64 genesis is C04's quantifier, not C12's: minting beyond 2^64 cannot succeed by arithmetic
		}
	}
	chainops.RunPlan(r, "C12", plan)
}
