// C04 — token supply conservation.
//
// Explorer (c): explicit-state replay-BFS over sequences of BLOCK RECIPES. Every path is
// executed on a fresh real store+FSM (one chain per worker process) through env.Chain.Step
// (proposer ApplyBlock on a copy, replica ApplyBlock, IndexQC, IndexBlock, Commit, fsm.New).
// After the last block of every path:
//
//	(1) sum(accounts)+sum(pools)+sum(stakes) (big-int, raw state scan) == Supply.Total
//	(2) no single amount exceeds Supply.Total
//	(3) Supply.Total(after) - Supply.Total(before) == mint(height) + approved DAO mints + faucet
//	    top-ups - slash burns - undistributed reward remainder, as predicted by the independent
//	    reference ledger in chainops/ref.go from the block's inputs.
//
// World, recipes, ledger and oracles live in verifharness/chainops (shared with C12).
package main

import (
	"fmt"
	"os"
	"time"

	"verifharness/chainops"
	"verifharness/mc"
)

type search struct {
	world string
	alpha string
	depth int
}

func main() {
	if mc.IsWorker() {
		mc.ServeWorker(func(j mc.BFSJob) mc.ExecResult { return chainops.Exec(j.Tag, j.Path) })
	}
	if len(os.Args) > 1 && os.Args[1] == "-probe" {
		probe()
		return
	}
	r := mc.Start("C04", "model_checking", 80*time.Second, 27*time.Minute)
	r.Assumptions = chainops.Assumptions("C04")
	if r.Replay != "" {
		chainops.DoReplay(r)
		return
	}
	var plan []search
	if r.Quick() {
		// ordered by value per unit of work: the deadline cuts the tail of this list on a busy machine
		plan = []search{
			{"small", "full", 2}, {"free", "full", 2}, {"nearmax", "edge", 3}, {"dust", "full", 2}, {"nearmax", "full", 2},
			{"small", "staking", 3}, {"minstake", "staking", 3}, {"small", "full", 3}, {"dust", "staking", 3}, {"nearmax", "staking", 3},
			{"small", "staking", 4},
		}
	} else {
		plan = []search{
			{"small", "full", 3}, {"free", "full", 3}, {"nearmax", "edge", 4}, {"dust", "full", 3}, {"nearmax", "full", 3}, {"faucet", "full", 2}, {"small/p1", "full", 2},
			{"small", "staking", 4}, {"minstake", "staking", 4}, {"dust", "staking", 4}, {"nearmax", "staking", 4}, {"small/p1", "staking", 3},
			{"small", "full", 4}, {"small", "staking", 5},
		}
	}
	chainops.RunPlan(r, "C04", toPlan(plan))
}

func toPlan(p []search) []chainops.Search {
	var out []chainops.Search
	for _, s := range p {
		out = append(out, chainops.Search{World: s.world, Alpha: s.alpha, Depth: s.depth})
	}
	return out
}

// probe: sequential cost measurement (GOMAXPROCS=1 ./c04 -probe)
func probe() {
	for _, w := range []string{"small", "dust", "nearmax"} {
		t0 := time.Now()
		n := 0
		for i := range chainops.Alphabet("full") {
			res := chainops.Exec(chainops.Job{Prop: "C04", World: w, Alpha: "full"}.Tag(), []int{i, 0, i})
			n += 3
			for _, v := range res.Viols {
				fmt.Println("VIOL", v.Sig, v.What)
			}
			fmt.Printf("%s op %d ok=%v info=%s\n", w, i, res.OK, res.Info)
		}
		fmt.Printf("world %s: %d blocks in %v = %v/block\n", w, n, time.Since(t0), time.Since(t0)/time.Duration(n))
	}
}
