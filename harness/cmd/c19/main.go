// C19 — unambiguous signed digests and store keys; untrusted bytes never crash a node.
//
// Exhaustive enumeration over stated finite families (level "exploration"):
//
//	part 1 (sign.go)   sign bytes / identity hashes of every signed kind over all 1- and
//	                   2-field deviations of a base object; signature-cache key; cross-kind table
//	part 2 (keys.go)   lib.JoinLenPrefix, every fsm/key.go constructor, the store/indexer.go
//	                   constructors (observed through a real store), commit-id and versioned keys
//	part 3 (decode.go) every byte string of length <= 2 and every truncation / byte
//	                   substitution / declared-length replacement / unknown-field insertion /
//	                   list blow-up / nesting of ~38 valid exemplars, through lib.Unmarshal and
//	                   the stateless handlers the production listeners call next
package main

import (
	"encoding/hex"
	"fmt"
	"sort"
	"strings"
	"time"

	"verifharness/mc"
)

type replayDecode struct {
	Part   string `json:"part"`
	Target string `json:"target"`
	Hex    string `json:"hex"`
}

func main() {
	r := mc.Start("C19", "exploration", 75*time.Second, 25*time.Minute)
	r.Assumptions = []string{
		"meaning of an object = protoreflect dump of its members minus the members the code comments exclude from the digest: transaction.signature; QC block body, results body and aggregate signature (lib/certificate.go:237-244); for a proposer message the QC block/results bodies and the message's own signature (bft/msg.go:216-233); protobuf's own identifications (nil == empty bytes/string/list) are not differences of meaning",
		"an ELECTION_VOTE certificate means (view, proposer key) only: lib/certificate.go:229 minifies it on purpose and the PROPOSE message re-uses it as the envelope of the proposal, whose hashes are covered by the proposer's message signature",
		"a replica vote means its QC payload (header, block hash, results hash, proposer key); what an ELECTION_VOTE message carries besides (highQC, evidence, VDF — each self-authenticating — and rcBuildHeight, which is not) is outside the vote signature by design (bft/msg.go:169 'so their communications may be aggregable')",
		"Message.vdf is never read from a proposer message, so it carries no meaning there",
		"production values of key components: addresses are 20 bytes (public-key hash or validated by checkAddress), block/tx hashes 32 bytes, order ids 20 bytes when written (crypto.ShortHash) but ANY bytes when read or deleted (MessageEditOrder / MessageDeleteOrder.OrderId is not length-checked), heights any uint64",
		"store/indexer.go and commit-id key constructors are unexported: they are observed as the raw pebble keys written by one exported Index* call + Commit on a real in-memory store.Store; iteration prefixes are taken as the leading segments of those real keys, with the depth production iterates at read from the source",
		"the handler chain of ListenForBlock is mirrored up to the first stateful call (qc.CheckBasic, qc.Check, qc.CheckProposalBasic as in controller.HandlePeerBlock); ListenForConsensus is exercised through the real Controller.ShouldGossip/GossipConsensus on a Controller without logger/peers (reaching either means the statement passed) and the real bft.BFT.HandleMessage behind a stub Controller; ListenForTx through the real lib.FeeMempool.AddTransactions; CheckTx's CheckMessage and CheckSignature on a zero StateMachine (they do not touch state)",
		"a panic is a violation only if production has no recover between the listener and the panicking call (controller/consensus.go:307, controller/block.go:21, controller/tx.go:36 have none; fsm.ApplyBlock and the p2p send/receive services have one)",
		"the only clock is a 60 s per-input watchdog",
	}
	if r.Replay != "" {
		doReplay(r)
		return
	}
	cov := map[string]any{}
	var evaluations int64
	distinct := 0

	// ---- signature cache witness first (toggles a process-wide switch, so nothing else runs yet)
	forged, werr := sigCacheWitness()
	if werr != nil {
		r.Note("signature-cache witness could not be evaluated: %v", werr)
	}
	cov["signature_cache_forgeries"] = forged

	// ---- part 1
	triples = !r.Quick()
	t0 := time.Now()
	cross := map[string]crossEntry{}
	var famRes []famResult
	fams := append(families(), sigCacheFamily())
	for _, f := range fams {
		// the structural collision of the cache key is reported together with its reachability below
		if f.kind == "signature-cache-key" {
			res := runFamilyQuiet(f)
			famRes = append(famRes, res)
			evaluations += int64(res.Objects)
			distinct += res.Distinct
			if res.Violations > 0 {
				sig := "C19:signature-cache-key:no-framing:class=unreachable"
				what := fmt.Sprintf("crypto.BatchTuple.Key() = pk||msg||sig without lengths: %d pairs of different (message, signature) splits share a cache key", res.Violations)
				if len(forged) > 0 {
					sig = "C19:signature-cache-key:no-framing:reachable-unsigned-tx-accepted"
					what += fmt.Sprintf(".\n   REACHABLE: fsm.CheckSignature does not check the signature length, so once (pk, signBytes(T), sig) is cached (every node caches it when T passes through its mempool; 5 min life window) "+
						"a transaction T' whose sign bytes nobody signed is accepted when signBytes(T')||sig' == signBytes(T)||sig. %d concrete forgeries found through fsm.CheckSignature (all rejected with the cache disabled: %v):", len(forged), allControl(forged))
					for _, f := range forged {
						what += fmt.Sprintf("\n   - %s (found after %d signatures; forged signature is %d bytes)\n     signed T  = %s\n     forged T' = %s", f.Direction, f.Tries, f.SigLen, f.Signed, f.Forged)
					}
				}
				r.Violation(sig, what, map[string]any{"part": "sigcache", "forgeries": forged})
			}
			continue
		}
		res := runFamily(r, f, cross)
		famRes = append(famRes, res)
		evaluations += int64(res.Objects)
		distinct += res.Distinct
		fmt.Printf("part1 %-22s %-32s fields=%d (%d excluded) objects=%d pairs=%d distinct-digests=%d distinct-meanings=%d violations=%d\n",
			res.Kind, res.Digest, res.Fields, res.Ignored, res.Objects, res.Pairs, res.Distinct, res.Meanings, res.Violations)
	}
	evN, evOut := checkEvidenceIdentity(r)
	evaluations += int64(evN)
	cov["evidence_identity_through_AddDSE"] = map[string]any{"ordered_pairs": evN, "outcomes": evOut}
	cov["part1_families"] = famRes
	cov["part1_cross_kind_digests"] = len(cross)
	fmt.Printf("part1 done in %.1fs: %d families, cross-kind table %d digests\n", time.Since(t0).Seconds(), len(famRes), len(cross))

	// ---- part 2 (2c drives one store sequentially; runs beside part 3)
	krep := &keysReport{}
	guard := func(name string, f func()) {
		defer func() {
			if p := recover(); p != nil {
				r.Violation("C19:store-panic:"+name, fmt.Sprintf("%s: the store panicked on keys built by the production constructors from production-class components: %v", name, p), map[string]any{"part": name})
			}
		}()
		f()
	}
	checkJoinLenPrefix(r, krep)
	checkFsmKeys(r, krep)
	guard("versioned-keys", func() { checkVersionedKeys(r, krep) })
	keysDone := make(chan struct{})
	go func() {
		defer close(keysDone)
		t := time.Now()
		guard("indexer-keys", func() { checkIndexerKeys(r, krep, r.Quick()) })
		guard("state-change-journal", func() { checkJournal(r, krep) })
		guard("overlong-order-id", func() { checkOverlongOrderID(r, krep) })
		fmt.Printf("part2 indexer: %d Index* calls, %d keys (%d distinct) by kind %v, %d range checks, commit-id keys %d, store panics %v (%.1fs)\n",
			krep.IdxOps, krep.IdxKeys, krep.IdxDistinct, krep.IdxKinds, krep.IdxRangeChecks, krep.CommitIDKeys, krep.IdxStorePanics, time.Since(t).Seconds())
		fmt.Println("part2 journal:", krep.Journal)
	}()
	fmt.Printf("part2 JoinLenPrefix: %d tuples -> %d outputs, collision pairs by class %v\n", krep.JoinTuples, krep.JoinDistinct, krep.JoinCollisions)
	fmt.Printf("part2 fsm keys: %d constructors, %d tuples, %d distinct keys, %d range checks, segment-prefix pairs prod=%d other=%d, malformed %v\n",
		krep.FsmCtors, krep.FsmTuples, krep.FsmDistinct, krep.FsmRangeChecks, krep.FsmSegPrefixProd, krep.FsmSegPrefixOther, krep.FsmMalformed)

	// ---- part 3
	t1 := time.Now()
	w := newWorld()
	drep := &decodeReport{}
	runDecoders(r, w, drep)
	fmt.Printf("part3: %d exemplars, %d inputs (%d short strings) in %.1fs; decoder accepted %d, every stage passed %d; %d distinct (target,outcome) classes; escaping panics %d classes, recovered %d classes; slowest input %.2fs (%s)\n",
		drep.Exemplars, drep.Inputs, drep.ShortStrings, time.Since(t1).Seconds(), drep.Decoded, drep.FullyAccepted, drep.DistinctOutcomes, len(drep.Panics), len(drep.RecoveredPanics), drep.MaxInputSeconds, drep.SlowestInput)
	var fam []string
	for k, v := range drep.ByMutation {
		fam = append(fam, fmt.Sprintf("%s=%d", k, v))
	}
	sort.Strings(fam)
	fmt.Println("part3 inputs by family:", strings.Join(fam, " "))
	fam = fam[:0]
	for k, v := range drep.SecondsByTarget {
		fam = append(fam, fmt.Sprintf("%s=%.1f", k, v))
	}
	sort.Strings(fam)
	fmt.Println("part3 handler seconds by target (sum over workers):", strings.Join(fam, " "))
	if !drep.Complete {
		r.Exhaustive = false
		r.Note("part 3 stopped at the soft deadline after %d inputs", drep.Inputs)
	}
	<-keysDone

	evaluations += krep.Evaluations + drep.Inputs
	distinct += krep.JoinDistinct + krep.FsmDistinct + krep.IdxDistinct + drep.DistinctOutcomes
	cov["evaluations"] = evaluations
	cov["distinct_nontrivial"] = distinct
	cov["rule"] = "distinct digests per family (part 1) + distinct JoinLenPrefix outputs + distinct fsm keys + distinct observed indexer keys (part 2) + distinct (decoder target, first failing stage:error code | ok) classes (part 3)"
	cov["part2_keys"] = krep
	cov["part3_decoders"] = drep
	r.AddSample(map[string]any{"part1": "quorum-certificate base vs qc.move(resultsHash->blockHash): digests differ", "families": len(famRes)})
	r.AddSample(map[string]any{"part2": "KeyForCommittee(2^64-1, addr20L, 256) tuple evaluated", "tuples": krep.FsmTuples})
	r.AddSample(map[string]any{"part3": "slowest input", "input": drep.SlowestInput, "seconds": drep.MaxInputSeconds})
	r.Finish(cov)
}

func allControl(f []forgery) bool {
	for _, x := range f {
		if !x.ControlOK {
			return false
		}
	}
	return true
}

// runFamilyQuiet evaluates a family counting rule-1 collisions without reporting them.
func runFamilyQuiet(f *family) famResult {
	vecs := f.vectors()
	res := famResult{Kind: f.kind, Digest: f.digest, Fields: len(f.fields), Objects: len(vecs), Pairs: int64(len(vecs)) * int64(len(vecs)-1) / 2}
	byDigest := map[string]string{}
	meanings := map[string]bool{}
	for _, v := range vecs {
		o := f.build(v)
		d, m := string(f.compute(o)), f.meaning(o)
		meanings[m] = true
		if prev, seen := byDigest[d]; seen {
			if prev != m {
				res.Violations++
			}
		} else {
			byDigest[d] = m
		}
	}
	res.Distinct, res.Meanings = len(byDigest), len(meanings)
	fmt.Printf("part1 %-22s %-32s fields=%d objects=%d pairs=%d distinct-digests=%d distinct-meanings=%d colliding=%d\n",
		res.Kind, res.Digest, res.Fields, res.Objects, res.Pairs, res.Distinct, res.Meanings, res.Violations)
	return res
}

func doReplay(r *mc.Run) {
	var rp replayDecode
	if err := r.LoadReplay(&rp); err != nil {
		fmt.Println("cannot load replay:", err)
		r.Finish(map[string]any{"evaluations": 1, "distinct_nontrivial": 2, "rule": "replay"})
	}
	switch rp.Part {
	case "decode":
		bz, _ := hex.DecodeString(rp.Hex)
		w := newWorld()
		for i := 0; i < 5; i++ {
			c := newCtx(w)
			res := c.handle(rp.Target, bz)
			fmt.Printf("replay %d: %s -> %s\n", i, rp.Target, res.outcome)
			if res.panic != nil {
				si := stages[res.panic.stage]
				if !si.recovered {
					r.Violation(fmt.Sprintf("C19:panic-escapes:%s:%s", strings.SplitN(si.listener, "(", 2)[0], res.panic.fn), res.panic.msg+"\n"+clip(res.panic.stack, 1500), rp)
				}
			}
		}
	default:
		// every other part is cheap: run it again in full
		cross := map[string]crossEntry{}
		for _, f := range families() {
			runFamily(r, f, cross)
		}
		k := &keysReport{}
		checkJoinLenPrefix(r, k)
		checkFsmKeys(r, k)
		checkVersionedKeys(r, k)
		checkIndexerKeys(r, k, true)
		checkJournal(r, k)
	}
	r.Finish(map[string]any{"evaluations": 1, "distinct_nontrivial": 2, "rule": "replay"})
}
