package main

import (
	"fmt"

	"github.com/canopy-network/canopy/bft"
	"github.com/canopy-network/canopy/lib"
	"google.golang.org/protobuf/proto"

	"verifharness/mc"
)

// Identity of double-sign evidence THROUGH the product: the de-duplication key of AddDSE is computed inside
// that function, so the only way to observe it is to add two evidence items to one list and see whether the
// second one is kept. Items are really signed (harness keys), individually valid, and differ in meaning:
// who is accused (signer sets), the view (round, phase) or the conflicting payload. Two items with different
// meaning must both be kept; the same item twice must be kept once.

type evSpec struct {
	name   string
	round  uint64
	phase  lib.Phase
	bHash  []byte
	sa, sb []int
}

func (w *world) mkEvidence(s evSpec) *bft.DoubleSignEvidence {
	a := &lib.QuorumCertificate{Header: &lib.View{NetworkId: netID, ChainId: chainID, Height: curH - 1, RootHeight: rootH - 1, Round: s.round, Phase: s.phase}, BlockHash: hashA, ResultsHash: hashB}
	b := proto.Clone(a).(*lib.QuorumCertificate)
	b.BlockHash = s.bHash
	a.Signature, b.Signature = w.aggregate(a.SignBytes(), s.sa...), w.aggregate(b.SignBytes(), s.sb...)
	return &bft.DoubleSignEvidence{VoteA: a, VoteB: b}
}

func checkEvidenceIdentity(r *mc.Run) (evaluations int, outcomes map[string]int) {
	outcomes = map[string]int{}
	w := newWorld()
	hashD := seedBytes("hashD", 32)
	specs := []evSpec{
		{"base(accuses 2)", 1, lib.Phase_PRECOMMIT_VOTE, hashC, []int{0, 1, 2}, []int{2, 3}},
		{"other-accused(1)", 1, lib.Phase_PRECOMMIT_VOTE, hashC, []int{0, 1, 2}, []int{1, 3}},
		{"more-accused(1,2)", 1, lib.Phase_PRECOMMIT_VOTE, hashC, []int{0, 1, 2}, []int{1, 2, 3}},
		{"other-accused-via-A(0)", 1, lib.Phase_PRECOMMIT_VOTE, hashC, []int{0, 2}, []int{0, 3}},
		{"other-round", 2, lib.Phase_PRECOMMIT_VOTE, hashC, []int{0, 1, 2}, []int{2, 3}},
		{"other-phase", 1, lib.Phase_PROPOSE_VOTE, hashC, []int{0, 1, 2}, []int{2, 3}},
		{"other-payload", 1, lib.Phase_PRECOMMIT_VOTE, hashD, []int{0, 1, 2}, []int{2, 3}},
	}
	add := func(b *bft.BFT, l *bft.DoubleSignEvidences, s evSpec) (err lib.ErrorI) {
		defer func() {
			if p := recover(); p != nil {
				err = lib.NewError(0, "c19", fmt.Sprintf("panic: %v", p))
			}
		}()
		return b.AddDSE(l, w.mkEvidence(s))
	}
	for i, si := range specs {
		for j, sj := range specs {
			b := newBFT(w, false)
			l := bft.NewDSE()
			e1 := add(b, &l, si)
			n1 := len(l.Evidence)
			e2 := add(b, &l, sj)
			n2 := len(l.Evidence)
			evaluations++
			switch {
			case e1 != nil || n1 != 1:
				outcomes["first-item-refused"]++
				r.Note("evidence identity: item %q is not accepted by AddDSE on its own (%v): not evaluated", si.name, e1)
			case i == j:
				if n2 == 1 {
					outcomes["same-item-twice:kept-once"]++
				} else {
					outcomes["same-item-twice:kept-twice"]++ // harmless: the state machine indexes (validator, height)
				}
			case n2 == 2:
				outcomes["different-meaning:both-kept"]++
			default:
				outcomes["different-meaning:SECOND-DROPPED"]++
				r.Violation("C19:digest-collision:double-sign-evidence:dedup-key:observed-through-AddDSE",
					fmt.Sprintf("AddDSE(list, %q) then AddDSE(list, %q): the list holds %d item(s) (second call returned %v): two evidence items with different meaning share the identity the de-duplicator uses, the second accusation never reaches the slash list", si.name, sj.name, n2, e2),
					map[string]any{"part": "evidence-identity", "first": si.name, "second": sj.name})
			}
		}
	}
	return
}
