package main

// Part 3 — decoders and the first handlers that follow them in production.
//
// Every input is decoded with lib.Unmarshal into the type the production listener uses and
// then pushed through the stateless handlers that the listener calls next. Each stage is
// tagged with the listener it belongs to and with whether production runs it below an
// existing recover():
//
//	ListenForTx        lib.Unmarshal(TxMessage) -> Mempool.HandleTransactions -> FeeMempool.AddTransactions
//	                   (Unmarshal(Transaction)+CheckBasic)                                   NO recover
//	  (later)          FSM.CheckTx: CheckMessage, CheckSignature — inside ApplyBlock         recover (fsm/state.go:143)
//	ListenForBlock     lib.Unmarshal(BlockMessage) -> HandlePeerBlock: qc.CheckBasic,
//	                   qc.Check, qc.CheckProposalBasic (Unmarshal(Block)+Block.Check)        NO recover
//	ListenForConsensus lib.Unmarshal(bft.Message) -> ShouldGossip/GossipConsensus (gossip
//	                   mode) -> BFT.HandleMessage (real bft.BFT, mock controller)            NO recover
//	p2p receive        lib.Unmarshal(Envelope) -> lib.FromAny -> *Packet switch              recover (p2p/conn.go:226)

import (
	"bytes"
	"fmt"
	"google.golang.org/protobuf/reflect/protoreflect"
	"os"
	"runtime/debug"
	"sort"
	"strings"
	"sync"
	"sync/atomic"
	"time"

	"github.com/canopy-network/canopy/bft"
	"github.com/canopy-network/canopy/controller"
	"github.com/canopy-network/canopy/fsm"
	"github.com/canopy-network/canopy/lib"
	"github.com/canopy-network/canopy/lib/crypto"
	"github.com/canopy-network/canopy/p2p"
	"google.golang.org/protobuf/encoding/protowire"
	"google.golang.org/protobuf/proto"
	"google.golang.org/protobuf/types/known/anypb"

	"verifharness/mc"
)

const (
	netID   = uint64(1)
	chainID = uint64(2)
	curH    = uint64(10)
	rootH   = uint64(20)
	curR    = uint64(3)
)

// ---------------------------------------------------------------------------------------
// world: validators, certificates, messages

type world struct {
	keys     []crypto.PrivateKeyI
	vs       lib.ValidatorSet
	block    []byte
	blockObj *lib.Block
	results  *lib.CertificateResult
	txs      [][]byte
	txSigner crypto.PrivateKeyI
	cmsgs    []cmsg // the consensus exemplars as objects (before signing), for the re-signed structural family
}

type cmsg struct {
	name string
	m    *bft.Message
	by   int
}

func view(p lib.Phase) *lib.View {
	return &lib.View{NetworkId: netID, ChainId: chainID, Height: curH, RootHeight: rootH, Round: curR, Phase: p}
}

func (w *world) aggregate(signBytes []byte, signers ...int) *lib.AggregateSignature {
	mk := w.vs.MultiKey.Copy()
	for _, i := range signers {
		if err := mk.AddSigner(w.keys[i].Sign(signBytes), i); err != nil {
			panic(err)
		}
	}
	sig, err := mk.AggregateSignatures()
	if err != nil {
		panic(err)
	}
	return &lib.AggregateSignature{Signature: sig, Bitmap: mk.Bitmap()}
}

func signTx(k crypto.PrivateKeyI, msg proto.Message, name string, t uint64, memo string) []byte {
	a, err := anypb.New(msg)
	if err != nil {
		panic(err)
	}
	tx := &lib.Transaction{MessageType: name, Msg: a, CreatedHeight: 9, Time: t, Fee: 10000, Memo: memo, NetworkId: netID, ChainId: chainID}
	if e := tx.Sign(k); e != nil {
		panic(e)
	}
	bz, e := lib.Marshal(tx)
	if e != nil {
		panic(e)
	}
	return bz
}

func newWorld() *world {
	w := &world{txSigner: edKey(20)}
	cv := &lib.ConsensusValidators{}
	for i := 0; i < 4; i++ {
		k := blsKey(10 + i)
		w.keys = append(w.keys, k)
		cv.ValidatorSet = append(cv.ValidatorSet, &lib.ConsensusValidator{PublicKey: k.PublicKey().Bytes(), VotingPower: 100, NetAddress: fmt.Sprintf("tcp://v%d", i)})
	}
	vs, err := lib.NewValidatorSet(cv)
	if err != nil {
		panic(err)
	}
	w.vs = vs
	from := w.txSigner.PublicKey().Address().Bytes()
	w.txs = [][]byte{
		signTx(w.txSigner, &fsm.MessageSend{FromAddress: from, ToAddress: addrB, Amount: 5}, fsm.MessageSendName, 1001, ""),
		signTx(w.keys[1], &fsm.MessageSend{FromAddress: w.keys[1].PublicKey().Address().Bytes(), ToAddress: addrA, Amount: 6}, fsm.MessageSendName, 1002, "hello"),
	}
	w.results = &lib.CertificateResult{
		RewardRecipients: &lib.RewardRecipients{PaymentPercents: []*lib.PaymentPercents{{Address: addrA, Percent: 100, ChainId: chainID}}},
		SlashRecipients:  &lib.SlashRecipients{DoubleSigners: []*lib.DoubleSigner{{Id: w.keys[3].PublicKey().Bytes(), Heights: []uint64{7}}}},
		Orders: &lib.Orders{LockOrders: []*lib.LockOrder{{OrderId: addrA, ChainId: chainID, BuyerReceiveAddress: addrB, BuyerSendAddress: addrB, BuyerChainDeadline: 99}},
			ResetOrders: [][]byte{addrA}, CloseOrders: [][]byte{addrB}},
		Checkpoint: &lib.Checkpoint{Height: curH, BlockHash: hashA},
	}
	lastQC := &lib.QuorumCertificate{Header: &lib.View{NetworkId: netID, ChainId: chainID, Height: curH - 1, RootHeight: rootH - 1, Phase: lib.Phase_PRECOMMIT_VOTE},
		ResultsHash: hashA, BlockHash: hashB}
	lastQC.Signature = w.aggregate(lastQC.SignBytes(), 0, 1, 2)
	w.blockObj = &lib.Block{BlockHeader: &lib.BlockHeader{Height: curH, NetworkId: uint32(netID), Time: 1700000000000000, NumTxs: 2, TotalTxs: 20, TotalVdfIterations: 5,
		LastBlockHash: hashA, StateRoot: hashB, TransactionRoot: hashC, ValidatorRoot: hashA, NextValidatorRoot: hashB, ProposerAddress: w.keys[0].PublicKey().Address().Bytes(),
		Vdf: &crypto.VDF{Proof: seedBytes("vdfp", 40), Output: seedBytes("vdfo", 40), Iterations: 5}, LastQuorumCertificate: lastQC}, Transactions: w.txs}
	if _, e := w.blockObj.Hash(); e != nil {
		panic(e)
	}
	w.block, _ = lib.Marshal(w.blockObj)
	return w
}

// qcFor builds a certificate for the phase signed by validators 0..2 (+2/3).
func (w *world) qcFor(p lib.Phase, withBodies bool) *lib.QuorumCertificate {
	q := &lib.QuorumCertificate{Header: view(p)}
	if p == lib.Phase_ELECTION_VOTE {
		q.ProposerKey = w.keys[0].PublicKey().Bytes()
	} else {
		q.BlockHash, q.ResultsHash, q.ProposerKey = w.blockObj.BlockHeader.Hash, w.results.Hash(), w.keys[0].PublicKey().Bytes()
	}
	q.Signature = w.aggregate(q.SignBytes(), 0, 1, 2)
	if withBodies {
		q.Block, q.Results = w.block, w.results
		if p == lib.Phase_ELECTION_VOTE { // the PROPOSE envelope
			q.BlockHash, q.ResultsHash = w.blockObj.BlockHeader.Hash, w.results.Hash()
		}
	}
	return q
}

func (w *world) signMsg(m *bft.Message, signer int) *bft.Message {
	if e := m.Sign(w.keys[signer]); e != nil {
		panic(e)
	}
	return m
}

func (w *world) dse() *bft.DoubleSignEvidence {
	a := &lib.QuorumCertificate{Header: &lib.View{NetworkId: netID, ChainId: chainID, Height: curH - 1, RootHeight: rootH - 1, Round: 1, Phase: lib.Phase_PRECOMMIT_VOTE}, BlockHash: hashA, ResultsHash: hashB}
	b := proto.Clone(a).(*lib.QuorumCertificate)
	b.BlockHash = hashC
	a.Signature, b.Signature = w.aggregate(a.SignBytes(), 0, 1, 2), w.aggregate(b.SignBytes(), 2, 3)
	return &bft.DoubleSignEvidence{VoteA: a, VoteB: b}
}

// ---------------------------------------------------------------------------------------
// mock controller for the real bft.BFT

type mockCtl struct {
	sync.Mutex
	w       *world
	syncing atomic.Bool
}

func (m *mockCtl) ChainHeight() uint64     { return curH }
func (m *mockCtl) RootChainHeight() uint64 { return rootH }
func (m *mockCtl) ProduceProposal(*bft.ByzantineEvidence, *crypto.VDF) (uint64, []byte, *lib.CertificateResult, lib.ErrorI) {
	return rootH, m.w.block, m.w.results, nil
}
func (m *mockCtl) ValidateProposal(uint64, *lib.QuorumCertificate, *bft.ByzantineEvidence) (*lib.BlockResult, lib.ErrorI) {
	return &lib.BlockResult{BlockHeader: m.w.blockObj.BlockHeader}, nil
}
func (m *mockCtl) LoadCertificate(uint64) (*lib.QuorumCertificate, lib.ErrorI) {
	return m.w.qcFor(lib.Phase_PRECOMMIT_VOTE, true), nil
}
func (m *mockCtl) CommitCertificate(*lib.QuorumCertificate, *lib.Block, *lib.BlockResult, uint64) lib.ErrorI {
	return nil
}
func (m *mockCtl) GossipBlock(*lib.QuorumCertificate, []byte, uint64)          {}
func (m *mockCtl) GossipConsensus(*bft.Message, []byte)                        {}
func (m *mockCtl) SelfSendBlock(*lib.QuorumCertificate, uint64)                {}
func (m *mockCtl) SendToReplicas(lib.ValidatorSet, lib.Signable)               {}
func (m *mockCtl) SendToProposer(lib.Signable)                                 {}
func (m *mockCtl) LoadRootChainId(uint64) uint64                               { return chainID }
func (m *mockCtl) LoadIsOwnRoot() bool                                         { return true }
func (m *mockCtl) Syncing() *atomic.Bool                                       { return &m.syncing }
func (m *mockCtl) ResetFSM()                                                   {}
func (m *mockCtl) SendCertificateResultsTx(*lib.QuorumCertificate)             {}
func (m *mockCtl) LoadCommittee(uint64, uint64) (lib.ValidatorSet, lib.ErrorI) { return m.w.vs, nil }
func (m *mockCtl) LoadCommitteeData() (*lib.CommitteeData, lib.ErrorI) {
	return &lib.CommitteeData{ChainId: chainID}, nil
}
func (m *mockCtl) LoadLastProposers(uint64) (*lib.Proposers, lib.ErrorI) {
	return &lib.Proposers{}, nil
}
func (m *mockCtl) LoadMinimumEvidenceHeight(uint64, uint64) (*uint64, lib.ErrorI) {
	z := uint64(0)
	return &z, nil
}
func (m *mockCtl) IsValidDoubleSigner(uint64, uint64, []byte) bool { return true }
func (m *mockCtl) LoadMaxBlockSize() int                           { return 1_000_000 }

func newBFT(w *world, withBlock bool) *bft.BFT {
	cfg := lib.DefaultConfig()
	cfg.ChainId = chainID
	cfg.NetworkID = netID
	cfg.RunVDF = false
	b, err := bft.New(cfg, w.keys[0], rootH, curH, &mockCtl{w: w}, false, nil, lib.NewNullLogger())
	if err != nil {
		panic(err)
	}
	b.View.Round = curR
	b.ValidatorSet = w.vs
	b.CommitteeData = &lib.CommitteeData{ChainId: chainID}
	if withBlock {
		b.Block, b.Results = w.block, w.results
	}
	return b
}

// ---------------------------------------------------------------------------------------
// exemplars

type exemplar struct {
	name   string
	target string
	bz     []byte
}

func mustMarshal(m proto.Message) []byte {
	bz, err := lib.Marshal(m)
	if err != nil {
		panic(err)
	}
	return bz
}

func buildExemplars(w *world) []exemplar {
	var ex []exemplar
	k, from := w.txSigner, w.txSigner.PublicKey().Address().Bytes()
	val := w.keys[1]
	valAddr := val.PublicKey().Address().Bytes()
	paramVal, _ := anypb.New(&lib.UInt64Wrapper{Value: 5})
	certQC := w.qcFor(lib.Phase_PRECOMMIT_VOTE, false)
	certQC.Results = w.results
	txm := []struct {
		name string
		k    crypto.PrivateKeyI
		m    proto.Message
		memo string
	}{
		{fsm.MessageSendName, k, &fsm.MessageSend{FromAddress: from, ToAddress: addrB, Amount: 5}, ""},
		{fsm.MessageStakeName, val, &fsm.MessageStake{PublicKey: val.PublicKey().Bytes(), Amount: 1000, Committees: []uint64{1, 2}, NetAddress: "tcp://x", OutputAddress: valAddr, Signer: valAddr}, ""},
		{fsm.MessageEditStakeName, val, &fsm.MessageEditStake{Address: valAddr, Amount: 2000, Committees: []uint64{2}, NetAddress: "tcp://y", OutputAddress: valAddr, Signer: valAddr}, ""},
		{fsm.MessageUnstakeName, val, &fsm.MessageUnstake{Address: valAddr}, ""},
		{fsm.MessagePauseName, val, &fsm.MessagePause{Address: valAddr}, ""},
		{fsm.MessageUnpauseName, val, &fsm.MessageUnpause{Address: valAddr}, ""},
		{fsm.MessageChangeParameterName, k, &fsm.MessageChangeParameter{ParameterSpace: "val", ParameterKey: "maxCommittees", ParameterValue: paramVal, StartHeight: 1, EndHeight: 100, Signer: from}, ""},
		{fsm.MessageDAOTransferName, k, &fsm.MessageDAOTransfer{Address: from, Amount: 7, StartHeight: 1, EndHeight: 100}, ""},
		{fsm.MessageCertificateResultsName, val, &fsm.MessageCertificateResults{Qc: certQC}, ""},
		{fsm.MessageSubsidyName, k, &fsm.MessageSubsidy{Address: from, ChainId: chainID, Amount: 9, Opcode: []byte("op")}, ""},
		{fsm.MessageCreateOrderName, k, &fsm.MessageCreateOrder{ChainId: chainID, Data: []byte{1}, AmountForSale: 10, RequestedAmount: 20, SellerReceiveAddress: addrA, SellersSendAddress: from}, ""},
		{fsm.MessageEditOrderName, k, &fsm.MessageEditOrder{OrderId: addrA, ChainId: chainID, AmountForSale: 11, RequestedAmount: 21, SellerReceiveAddress: addrA}, ""},
		{fsm.MessageDeleteOrderName, k, &fsm.MessageDeleteOrder{OrderId: addrA, ChainId: chainID}, ""},
		{fsm.MessageDexLimitOrderName, k, &fsm.MessageDexLimitOrder{ChainId: chainID, AmountForSale: 5, RequestedAmount: 6, Address: from}, ""},
		{fsm.MessageDexLiquidityDepositName, k, &fsm.MessageDexLiquidityDeposit{ChainId: chainID, Amount: 5, Address: from}, ""},
		{fsm.MessageDexLiquidityWithdrawName, k, &fsm.MessageDexLiquidityWithdraw{ChainId: chainID, Percent: 50, Address: from}, ""},
		{fsm.MessageSendName + "+lockOrderMemo", k, &fsm.MessageSend{FromAddress: from, ToAddress: from, Amount: 1}, `{"orderId":"` + fmt.Sprintf("%x", addrA) + `","chain_id":2,"buyerSendAddress":"` + fmt.Sprintf("%x", addrB) + `","buyerReceiveAddress":"` + fmt.Sprintf("%x", addrB) + `","buyerChainDeadline":99}`},
	}
	for i, t := range txm {
		name := t.name
		if !strings.Contains(name, "+") {
			name = t.name
		}
		ex = append(ex, exemplar{"tx:" + name, "Transaction", signTx(t.k, t.m, strings.SplitN(t.name, "+", 2)[0], uint64(2000+i), t.memo)})
	}
	ex = append(ex, exemplar{"block:2txs", "Block", w.block})
	empty := proto.Clone(w.blockObj).(*lib.Block)
	empty.Transactions, empty.BlockHeader.NumTxs, empty.BlockHeader.LastQuorumCertificate, empty.BlockHeader.Vdf = nil, 0, nil, nil
	empty.BlockHeader.Height = 1
	_, _ = empty.Hash()
	ex = append(ex, exemplar{"block:height1-empty", "Block", mustMarshal(empty)})
	ex = append(ex, exemplar{"qc:precommit-vote+block+results", "QuorumCertificate", mustMarshal(w.qcFor(lib.Phase_PRECOMMIT_VOTE, true))})
	ex = append(ex, exemplar{"qc:propose-vote(highQC)", "QuorumCertificate", mustMarshal(w.qcFor(lib.Phase_PROPOSE_VOTE, true))})
	ex = append(ex, exemplar{"qc:election-vote", "QuorumCertificate", mustMarshal(w.qcFor(lib.Phase_ELECTION_VOTE, false))})
	ex = append(ex, exemplar{"blockmsg:certificate", "BlockMessage", mustMarshal(&lib.BlockMessage{ChainId: chainID, MaxHeight: curH, TotalVdfIterations: 5,
		BlockAndCertificate: w.qcFor(lib.Phase_PRECOMMIT_VOTE, true), Time: 1700000000000001})})
	ex = append(ex, exemplar{"blockmsg:height-only", "BlockMessage", mustMarshal(&lib.BlockMessage{ChainId: chainID, MaxHeight: curH, TotalVdfIterations: 5})})
	ex = append(ex, exemplar{"txmsg:2txs", "TxMessage", mustMarshal(&lib.TxMessage{ChainId: chainID, Txs: w.txs})})
	ex = append(ex, exemplar{"blockreq", "BlockRequestMessage", mustMarshal(&lib.BlockRequestMessage{ChainId: chainID, Height: 9, HeightOnly: true})})
	// consensus messages, one per phase
	pk0 := w.keys[0].PublicKey().Bytes()
	msgs := []struct {
		name string
		m    *bft.Message
		by   int
	}{
		{"election", &bft.Message{Header: view(lib.Phase_ELECTION), Vrf: &lib.Signature{PublicKey: pk0, Signature: w.keys[0].Sign([]byte("vrf-seed"))}}, 0},
		{"election-vote", &bft.Message{Qc: &lib.QuorumCertificate{Header: view(lib.Phase_ELECTION_VOTE), ProposerKey: pk0},
			Vdf: &crypto.VDF{Proof: seedBytes("vp", 30), Output: seedBytes("vo", 30), Iterations: 3}, RcBuildHeight: rootH}, 1},
		{"election-vote+highqc+evidence", &bft.Message{Qc: &lib.QuorumCertificate{Header: view(lib.Phase_ELECTION_VOTE), ProposerKey: pk0},
			HighQc: w.qcFor(lib.Phase_PROPOSE_VOTE, true), LastDoubleSignEvidence: []*bft.DoubleSignEvidence{w.dse()}, RcBuildHeight: rootH}, 2},
		{"propose", &bft.Message{Header: view(lib.Phase_PROPOSE), Qc: w.qcFor(lib.Phase_ELECTION_VOTE, true), RcBuildHeight: rootH}, 0},
		{"propose+highqc", &bft.Message{Header: view(lib.Phase_PROPOSE), Qc: w.qcFor(lib.Phase_ELECTION_VOTE, true), HighQc: w.qcFor(lib.Phase_PROPOSE_VOTE, true), RcBuildHeight: rootH}, 0},
		{"propose-vote", &bft.Message{Qc: &lib.QuorumCertificate{Header: view(lib.Phase_PROPOSE_VOTE), BlockHash: w.blockObj.BlockHeader.Hash, ResultsHash: w.results.Hash(), ProposerKey: pk0}}, 1},
		{"propose-vote+block", &bft.Message{Qc: &lib.QuorumCertificate{Header: view(lib.Phase_PROPOSE_VOTE), BlockHash: w.blockObj.BlockHeader.Hash, ResultsHash: w.results.Hash(), ProposerKey: pk0,
			Block: w.block}}, 2},
		{"precommit", &bft.Message{Header: view(lib.Phase_PRECOMMIT), Qc: w.qcFor(lib.Phase_PROPOSE_VOTE, false)}, 0},
		{"precommit-vote", &bft.Message{Qc: &lib.QuorumCertificate{Header: view(lib.Phase_PRECOMMIT_VOTE), BlockHash: w.blockObj.BlockHeader.Hash, ResultsHash: w.results.Hash(), ProposerKey: pk0}}, 3},
		{"commit", &bft.Message{Header: view(lib.Phase_COMMIT), Qc: w.qcFor(lib.Phase_PRECOMMIT_VOTE, false), Timestamp: 1700000000000002}, 0},
		{"round-interrupt", &bft.Message{Qc: &lib.QuorumCertificate{Header: view(lib.Phase_ROUND_INTERRUPT)}}, 1},
	}
	w.cmsgs = nil
	for _, m := range msgs {
		w.cmsgs = append(w.cmsgs, cmsg{m.name, proto.Clone(m.m).(*bft.Message), m.by})
		ex = append(ex, exemplar{"consensus:" + m.name, "bft.Message", mustMarshal(w.signMsg(m.m, m.by))})
	}
	// p2p wire
	env := func(m proto.Message) []byte {
		a, err := anypb.New(m)
		if err != nil {
			panic(err)
		}
		return mustMarshal(&p2p.Envelope{Payload: a})
	}
	ex = append(ex, exemplar{"envelope:packet(tx)", "Envelope", env(&p2p.Packet{StreamId: lib.Topic_TX, Eof: true, Bytes: mustMarshal(&lib.TxMessage{ChainId: chainID, Txs: w.txs[:1]})})})
	ex = append(ex, exemplar{"envelope:packet(heartbeat)", "Envelope", env(&p2p.Packet{StreamId: lib.Topic_HEARTBEAT, Eof: true, Bytes: []byte("ping")})})
	ex = append(ex, exemplar{"envelope:peerbook", "Envelope", env(&p2p.PeerBookResponseMessage{Book: []*p2p.BookPeer{{Address: &lib.PeerAddress{PublicKey: pk0, NetAddress: "tcp://a",
		PeerMeta: &lib.PeerMeta{NetworkId: netID, ChainId: chainID, Signature: sigA}}}}})})
	return ex
}

// ---------------------------------------------------------------------------------------
// targets and handler chains

type stageInfo struct {
	listener  string
	recovered bool // production runs this stage below an existing recover()
}

var stages = map[string]stageInfo{
	"unmarshal:Transaction": {"ListenForTx(AddTransactions)", false}, "mempool.AddTransactions": {"ListenForTx", false}, "tx.CheckBasic": {"ListenForTx(AddTransactions)", false},
	"fsm.CheckMessage": {"CheckTx(in ApplyBlock)", true}, "fsm.CheckSignature": {"CheckTx(in ApplyBlock)", true}, "tx.GetHash": {"ListenForTx", false},
	"unmarshal:TxMessage": {"ListenForTx", false}, "txmsg.String": {"ListenForTx", false},
	"unmarshal:Block": {"ListenForBlock(CheckProposalBasic)", false}, "block.Check": {"ListenForBlock(CheckProposalBasic)", false}, "block.BytesToBlockHash": {"ListenForBlock(qc.CheckBasic)", false},
	"block.Hash":                  {"ListenForBlock(CheckProposalBasic)", false},
	"unmarshal:QuorumCertificate": {"ListenForBlock", false}, "qc.CheckBasic": {"ListenForBlock(HandlePeerBlock)", false}, "qc.Check": {"ListenForBlock(HandlePeerBlock)", false},
	"qc.CheckProposalBasic": {"ListenForBlock(HandlePeerBlock)", false}, "qc.CheckHighQC": {"ListenForConsensus(HandleMessage)", false}, "qc.SignBytes": {"ListenForBlock", false},
	"unmarshal:BlockMessage": {"ListenForBlock", false}, "unmarshal:BlockRequestMessage": {"ListenForBlockRequests", false},
	"unmarshal:bft.Message": {"ListenForConsensus", false}, "controller.ShouldGossip": {"ListenForConsensus", false}, "controller.GossipConsensus": {"ListenForConsensus(gossip mode)", false},
	"bft.HandleMessage(no-proposal-yet)": {"ListenForConsensus", false}, "bft.HandleMessage(proposal-held)": {"ListenForConsensus", false},
	"unmarshal:Envelope": {"p2p receive service", true}, "lib.FromAny": {"p2p receive service", true}, "packet.switch": {"p2p receive service", true},
}

type slotDesc struct {
	target, ex, mut string
	bz              []byte
}

func (d slotDesc) String() string {
	return fmt.Sprintf("%s %s %s (%d bytes) %s", d.target, d.ex, d.mut, len(d.bz), clip(fmt.Sprintf("%x", d.bz), 200))
}

type hctx struct {
	rep        *decodeReport
	slot       *slot
	examples   map[string]string
	w          *world
	bftA, bftB *bft.BFT
	sm         *fsm.StateMachine
	ctl        *controller.Controller
	mpCfg      lib.MempoolConfig
	signers    [][]byte
}

func newCtx(w *world) *hctx {
	c := &hctx{w: w, bftA: newBFT(w, false), bftB: newBFT(w, true), sm: &fsm.StateMachine{}, mpCfg: lib.DefaultMempoolConfig()}
	c.ctl = &controller.Controller{P2P: &p2p.P2P{}}
	c.ctl.P2P.SetGossipMode(true)
	c.signers = [][]byte{w.txSigner.PublicKey().Address().Bytes(), w.keys[1].PublicKey().Address().Bytes()}
	return c
}

type panicInfo struct {
	stage string
	fn    string // first canopy frame
	msg   string
	stack string
}

var srcCache sync.Map

func srcLine(file string, line int) string {
	v, ok := srcCache.Load(file)
	if !ok {
		bz, _ := os.ReadFile(file)
		v = strings.Split(string(bz), "\n")
		srcCache.Store(file, v)
	}
	ls := v.([]string)
	if line-1 < len(ls) && line > 0 {
		return ls[line-1]
	}
	return ""
}

// firstCanopyFrame returns the innermost canopy function on a panic stack and its source line text.
func firstCanopyFrame(stack string) (fn, src string) {
	lines := strings.Split(stack, "\n")
	seenPanic := false
	for i := 0; i+1 < len(lines); i++ {
		l := lines[i]
		if strings.HasPrefix(l, "panic(") {
			seenPanic = true
			continue
		}
		if !seenPanic || !strings.HasPrefix(l, "github.com/canopy-network/canopy/") {
			continue
		}
		fn = strings.TrimPrefix(l, "github.com/canopy-network/canopy/")
		if j := strings.LastIndex(fn, "("); j > 0 {
			fn = fn[:j]
		}
		loc := strings.TrimSpace(lines[i+1])
		if j := strings.Index(loc, " "); j > 0 {
			loc = loc[:j]
		}
		if j := strings.LastIndex(loc, ":"); j > 0 {
			var n int
			fmt.Sscanf(loc[j+1:], "%d", &n)
			src = strings.TrimSpace(srcLine(loc[:j], n))
		}
		return
	}
	return "?", ""
}

// stage runs f under recover; returns error class ("" = passed).
func (c *hctx) stage(name string, pi **panicInfo, f func() lib.ErrorI) (errClass string) {
	defer func() {
		if p := recover(); p != nil {
			st := string(debug.Stack())
			fn, src := firstCanopyFrame(st)
			// the zero-value controller has no logger / peer set: reaching them means the statement under test was passed
			if name == "controller.GossipConsensus" && (strings.Contains(src, "c.log.") || strings.Contains(src, "c.P2P.")) {
				errClass = ""
				return
			}
			*pi = &panicInfo{stage: name, fn: fn, msg: fmt.Sprint(p), stack: st}
			errClass = "PANIC"
		}
	}()
	if err := f(); err != nil {
		return fmt.Sprintf("%s/%d", err.Module(), err.Code())
	}
	return ""
}

type result struct {
	passed  map[string]bool
	outcome string // "<stage>:<errclass>" of the first failing stage, or "ok"
	decoded bool   // lib.Unmarshal into the target type succeeded
	panic   *panicInfo
}

func wrapErr(e error) lib.ErrorI {
	if e == nil {
		return nil
	}
	return lib.ErrUnmarshal(e)
}

// handle runs the production chain of the target on one input.
func (c *hctx) handle(target string, in []byte) (res result) {
	var pi *panicInfo
	res.passed = map[string]bool{}
	run := func(name string, f func() lib.ErrorI) bool {
		if ec := c.stage(name, &pi, f); ec != "" {
			res.outcome, res.panic = name+":"+ec, pi
			return false
		}
		res.passed[name] = true
		return true
	}
	switch target {
	case "Transaction":
		tx := new(lib.Transaction)
		if !run("unmarshal:Transaction", func() lib.ErrorI { return lib.Unmarshal(in, tx) }) {
			return
		}
		res.decoded = true
		if !run("mempool.AddTransactions", func() lib.ErrorI { _, e := lib.NewMempool(c.mpCfg).AddTransactions(in); return e }) {
			return
		}
		if !run("fsm.CheckMessage", func() lib.ErrorI { _, e := c.sm.CheckMessage(tx.Msg); return e }) {
			return
		}
		if !run("fsm.CheckSignature", func() lib.ErrorI { _, e := c.sm.CheckSignature(tx, c.signers, nil); return e }) {
			return
		}
		if !run("tx.GetHash", func() lib.ErrorI { _, e := tx.GetHash(); return e }) {
			return
		}
	case "TxMessage":
		m := new(lib.TxMessage)
		if !run("unmarshal:TxMessage", func() lib.ErrorI { return lib.Unmarshal(in, m) }) {
			return
		}
		res.decoded = true
		if !run("txmsg.String", func() lib.ErrorI {
			if m.String() == "" {
				return lib.ErrEmptyMessage()
			}
			return nil
		}) {
			return
		}
		if !run("mempool.AddTransactions", func() lib.ErrorI { _, e := lib.NewMempool(c.mpCfg).AddTransactions(m.Txs...); return e }) {
			return
		}
	case "Block":
		b := new(lib.Block)
		if !run("block.BytesToBlockHash", func() lib.ErrorI { _, e := new(lib.Block).BytesToBlockHash(in); _ = e; return nil }) {
			return
		}
		if !run("unmarshal:Block", func() lib.ErrorI { return lib.Unmarshal(in, b) }) {
			return
		}
		res.decoded = true
		if !run("block.Check", func() lib.ErrorI { return b.Check(netID, chainID) }) {
			return
		}
		if !run("block.Hash", func() lib.ErrorI { _, e := b.Hash(); return e }) {
			return
		}
	case "QuorumCertificate", "BlockMessage":
		var qc *lib.QuorumCertificate
		if target == "QuorumCertificate" {
			qc = new(lib.QuorumCertificate)
			if !run("unmarshal:QuorumCertificate", func() lib.ErrorI { return lib.Unmarshal(in, qc) }) {
				return
			}
		} else {
			m := new(lib.BlockMessage)
			if !run("unmarshal:BlockMessage", func() lib.ErrorI { return lib.Unmarshal(in, m) }) {
				return
			}
			qc = m.BlockAndCertificate
		}
		res.decoded = true
		// controller.HandlePeerBlock, stateless prefix
		if !run("qc.CheckBasic", func() lib.ErrorI { return qc.CheckBasic() }) {
			return
		}
		if !run("qc.Check", func() lib.ErrorI {
			partial, e := qc.Check(c.w.vs, 1_000_000, &lib.View{NetworkId: netID, ChainId: chainID}, false)
			if e == nil && partial {
				return lib.ErrNoMaj23()
			}
			return e
		}) {
			return
		}
		if !run("qc.CheckProposalBasic", func() lib.ErrorI {
			_, e := qc.CheckProposalBasic(curH, netID, chainID)
			if e == nil && qc.Header.Phase != lib.Phase_PRECOMMIT_VOTE {
				return lib.ErrWrongPhase()
			}
			return e
		}) {
			return
		}
	case "BlockRequestMessage":
		if !run("unmarshal:BlockRequestMessage", func() lib.ErrorI { return lib.Unmarshal(in, new(lib.BlockRequestMessage)) }) {
			return
		}
		res.decoded = true
	case "bft.Message":
		m := new(bft.Message)
		if !run("unmarshal:bft.Message", func() lib.ErrorI { return lib.Unmarshal(in, m) }) {
			return
		}
		res.decoded = true
		gossip := false
		if !run("controller.ShouldGossip", func() lib.ErrorI { gossip, _ = c.ctl.ShouldGossip(m); return nil }) {
			return
		}
		if gossip {
			if !run("controller.GossipConsensus", func() lib.ErrorI { c.ctl.GossipConsensus(m, nil); return nil }) {
				return
			}
		}
		var first string
		for i, b := range []*bft.BFT{c.bftA, c.bftB} {
			name := []string{"bft.HandleMessage(no-proposal-yet)", "bft.HandleMessage(proposal-held)"}[i]
			mm := new(bft.Message)
			_ = lib.Unmarshal(in, mm)
			// every input meets the same node state
			b.Votes, b.Proposals, b.PartialQCs, b.PacemakerMessages = make(bft.VotesForHeight), make(bft.ProposalsForHeight), make(bft.PartialQCs), make(bft.PacemakerMessages)
			b.HighQC, b.VDFCache, b.RCBuildHeight = nil, nil, 0
			b.ByzantineEvidence = &bft.ByzantineEvidence{DSE: bft.DoubleSignEvidences{}}
			if i == 0 {
				b.Block, b.Results, b.BlockHash = nil, nil, nil
			} else {
				b.Block, b.Results = c.w.block, c.w.results
			}
			if ec := c.stage(name, &pi, func() lib.ErrorI { return b.HandleMessage(mm) }); ec != "" {
				if ec == "PANIC" {
					res.outcome, res.panic = name+":"+ec, pi
					return
				}
				if first == "" {
					first = name + ":" + ec
				}
				// the sender signature is checked before anything that depends on the node holding a
				// proposal, so the second node state cannot get further than this one did
				if ec == sigInvalid {
					break
				}
			} else {
				res.passed[name] = true
			}
		}
		if first != "" {
			res.outcome = first
			return
		}
	case "Envelope":
		e := new(p2p.Envelope)
		if !run("unmarshal:Envelope", func() lib.ErrorI { return lib.Unmarshal(in, e) }) {
			return
		}
		res.decoded = true
		var msg proto.Message
		if !run("lib.FromAny", func() lib.ErrorI { var er lib.ErrorI; msg, er = lib.FromAny(e.Payload); return er }) {
			return
		}
		if !run("packet.switch", func() lib.ErrorI {
			if x, ok := msg.(*p2p.Packet); ok {
				_ = lib.Topic_name[int32(x.StreamId)]
				return nil
			}
			return p2p.ErrUnknownP2PMsg(msg)
		}) {
			return
		}
	}
	res.outcome = "ok"
	return
}

func targetMsg(target string) proto.Message {
	switch target {
	case "Transaction":
		return new(lib.Transaction)
	case "TxMessage":
		return new(lib.TxMessage)
	case "Block":
		return new(lib.Block)
	case "QuorumCertificate":
		return new(lib.QuorumCertificate)
	case "BlockMessage":
		return new(lib.BlockMessage)
	case "BlockRequestMessage":
		return new(lib.BlockRequestMessage)
	case "bft.Message":
		return new(bft.Message)
	case "Envelope":
		return new(p2p.Envelope)
	}
	panic(target)
}

var sigInvalid = fmt.Sprintf("%s/%d", bft.ErrInvalidPartialSignature().Module(), bft.ErrInvalidPartialSignature().Code())

var criticalTargets = map[string]bool{"Transaction": true, "Block": true, "QuorumCertificate": true}

// ---------------------------------------------------------------------------------------
// input generation

type input struct {
	target string
	ex     string // exemplar name ("" for short strings)
	mut    string // mutation description
	bz     []byte
	lazy   func() []byte // materialised by the worker (keeps the big substitution families out of memory)
	// expectations for the structured unknown-field / oversize mutations
	mustReject   bool   // lib.Unmarshal into the target must fail
	unknownClass string // class for the report when the decoder accepts an unknown field
}

var lenVals = []uint64{0, 1 << 31, 1<<32 - 1, 1 << 63}
var subVals = []byte{0x00, 0x01, 0x7f, 0x80, 0xff}
var unknownField = []byte{0xc0, 0x3e, 0x01} // field 1000, varint 1

func genInputs(ex exemplar, pairWindow int) (out []input) {
	b := ex.bz
	for i := 0; i < len(b); i++ {
		out = append(out, input{target: ex.target, ex: ex.name, mut: fmt.Sprintf("truncate@%d", i), bz: b[:i]})
	}
	for i := 0; i < len(b); i++ {
		for _, v := range subVals {
			if b[i] == v {
				continue
			}
			i, v := i, v
			out = append(out, input{target: ex.target, ex: ex.name, mut: fmt.Sprintf("byte@%d=%02x", i, v), lazy: func() []byte {
				m := bytes.Clone(b)
				m[i] = v
				return m
			}})
		}
	}
	if pairWindow > 0 {
		for i := 0; i < len(b); i++ {
			for j := i + 1; j < len(b) && j <= i+pairWindow; j++ {
				for _, v := range subVals {
					for _, u := range subVals {
						i, j, v, u := i, j, v, u
						out = append(out, input{target: ex.target, ex: ex.name, mut: fmt.Sprintf("bytes@%d=%02x,@%d=%02x", i, v, j, u), lazy: func() []byte {
							m := bytes.Clone(b)
							m[i], m[j] = v, u
							return m
						}})
					}
				}
			}
		}
	}
	md := targetMsg(ex.target).ProtoReflect().Descriptor()
	tree, ok := parseWire(b, md)
	if !ok {
		return
	}
	// declared length of every length-delimited field, at every nesting level
	walk(tree, string(md.Name()), false, func(n *wnode, path string, _ bool) {
		if n.typ != protowire.BytesType {
			return
		}
		for _, v := range lenVals {
			for _, nofix := range []bool{false, true} {
				o := &encOpts{lenOf: n, lenVal: v, noFixup: nofix}
				out = append(out, input{target: ex.target, ex: ex.name, mut: fmt.Sprintf("len(%s.%d)=%d,fixup=%v", path, n.num, v, !nofix), bz: encodeNodes(tree, o)})
			}
		}
	})
	// every field removed, at every nesting level ("absent" sub-messages reach the nil paths of the handlers)
	walk(tree, string(md.Name()), false, func(n *wnode, path string, _ bool) {
		out = append(out, input{target: ex.target, ex: ex.name, mut: fmt.Sprintf("drop-field(%s.%d)", path, n.num), bz: encodeNodes(tree, &encOpts{repeat: n, times: 0})})
	})
	// unknown field at the top level and inside every nested message
	add := func(path string, bz []byte, opaque bool) {
		in := input{target: ex.target, ex: ex.name, mut: "unknown-field in " + path, bz: bz}
		switch {
		case criticalTargets[ex.target] && !opaque:
			in.mustReject = true
		case opaque && strings.Contains(path, "google.protobuf.Any>") && ex.target == "Transaction":
			in.unknownClass = "tx-payload-inside-any" // accepted iff fsm.CheckMessage (which decodes the payload) passes
		case opaque && strings.Contains(path, "Transaction>google.protobuf.Any>"):
			in.unknownClass = "not-decoded-in-chain" // payload of a tx inside a block: decoded by CheckTx in ApplyBlock
		case opaque && strings.Contains(path, "google.protobuf.Any>"):
			in.unknownClass = "wrapper" // p2p envelope payload
		case opaque && (strings.Contains(path, "types.Block>types.Transaction") || strings.HasPrefix(path, "Block>types.Transaction")):
			in.unknownClass = "not-decoded-in-chain" // txs of a block are decoded by CheckTx in ApplyBlock (lib.Unmarshal(Transaction))
		case opaque:
			in.unknownClass = "critical-type-behind-bytes-field" // decoded later by the handler with lib.Unmarshal
		default:
			in.unknownClass = "wrapper"
		}
		out = append(out, in)
	}
	add(string(md.Name()), append(bytes.Clone(b), unknownField...), false)
	walk(tree, string(md.Name()), false, func(n *wnode, path string, crossed bool) {
		if n.isMsg {
			add(path+">"+n.msgName, encodeNodes(tree, &encOpts{appendTo: n, extra: unknownField}), crossed || n.opaque)
		}
	})
	// unknown group nesting depth 0..40 appended at the top level
	for d := 0; d <= 40; d++ {
		var g []byte
		for i := 0; i < d; i++ {
			g = protowire.AppendTag(g, 1000, protowire.StartGroupType)
		}
		g = append(g, unknownField...)
		for i := 0; i < d; i++ {
			g = protowire.AppendTag(g, 1000, protowire.EndGroupType)
		}
		out = append(out, input{target: ex.target, ex: ex.name, mut: fmt.Sprintf("unknown-group-depth=%d", d), bz: append(bytes.Clone(b), g...), mustReject: criticalTargets[ex.target]})
	}
	return
}

// resignedInputs: structural malformations of consensus messages that are SIGNED AFTER the malformation (a byte-level
// mutation of a signed message dies at the signature check; a committee member can sign anything). For every
// sub-message of every consensus exemplar, down to depth 3: the sub-message emptied, and each of its populated
// fields cleared one at a time; for every repeated message field: one empty element. The message is then signed by
// the exemplar's sender.
func resignedInputs(w *world) (out []input) {
	type path []protoreflect.FieldDescriptor
	var visit func(root *bft.Message, cur protoreflect.Message, p path, depth int, emit func(desc string, mutate func(m protoreflect.Message)))
	nav := func(root protoreflect.Message, p path) protoreflect.Message {
		cur := root
		for _, fd := range p {
			cur = cur.Mutable(fd).Message()
		}
		return cur
	}
	visit = func(root *bft.Message, cur protoreflect.Message, p path, depth int, emit func(desc string, mutate func(m protoreflect.Message))) {
		cur.Range(func(fd protoreflect.FieldDescriptor, v protoreflect.Value) bool {
			if fd.Kind() != protoreflect.MessageKind || fd.IsMap() {
				return true
			}
			name := ""
			for _, x := range p {
				name += string(x.Name()) + "."
			}
			name += string(fd.Name())
			if fd.IsList() {
				fd := fd
				pp := append(path{}, p...)
				emit("list("+name+")+empty-element", func(m protoreflect.Message) {
					l := nav(m, pp).Mutable(fd).List()
					l.Append(l.NewElement())
				})
				return true
			}
			pp := append(path{}, p...)
			emit("empty("+name+")", func(m protoreflect.Message) {
				par := nav(m, pp)
				par.Set(fd, par.NewField(fd))
				par.Mutable(fd) // present, no fields
			})
			sub := v.Message()
			sub.Range(func(f2 protoreflect.FieldDescriptor, _ protoreflect.Value) bool {
				emit("clear("+name+"."+string(f2.Name())+")", func(m protoreflect.Message) {
					nav(m, append(append(path{}, pp...), fd)).Clear(f2)
				})
				return true
			})
			if depth < 3 {
				visit(root, sub, append(append(path{}, p...), fd), depth+1, emit)
			}
			return true
		})
	}
	for _, c := range w.cmsgs {
		c := c
		visit(c.m, c.m.ProtoReflect(), nil, 1, func(desc string, mutate func(m protoreflect.Message)) {
			m := proto.Clone(c.m).(*bft.Message)
			mutate(m.ProtoReflect())
			m.Signature = nil
			func() {
				defer func() { _ = recover() }() // signing a message the product's own SignBytes cannot serialise: nothing to send
				w.signMsg(m, c.by)
			}()
			if m.Signature == nil {
				return
			}
			bz, err := proto.Marshal(m)
			if err != nil {
				return
			}
			out = append(out, input{target: "bft.Message", ex: "consensus:" + c.name, mut: "resigned:" + desc, bz: bz})
		})
	}
	return
}

// nestedCertificates builds QC > block > header > lastQC > block > ... to the given depth.
func nestedCertificates(w *world, depth int) []byte {
	inner := w.qcFor(lib.Phase_PRECOMMIT_VOTE, false)
	for d := 0; d < depth; d++ {
		blk := proto.Clone(w.blockObj).(*lib.Block)
		blk.Transactions = nil
		blk.BlockHeader.LastQuorumCertificate = inner
		_, _ = blk.Hash()
		q := w.qcFor(lib.Phase_PRECOMMIT_VOTE, false)
		q.Block = mustMarshal(blk)
		q.BlockHash = blk.BlockHeader.Hash
		q.Results = w.results
		q.Signature = w.aggregate(q.SignBytes(), 0, 1, 2)
		inner = q
	}
	return mustMarshal(inner)
}

// oversizeInputs: list length at / above the codec maximum, field and message size above the maxima.
func oversizeInputs(w *world, ex []exemplar, big bool) (out []input) {
	const maxList = 100000
	byName := map[string]exemplar{}
	for _, e := range ex {
		byName[e.name] = e
	}
	rep := func(unit []byte, n int) []byte { return bytes.Repeat(unit, n) }
	blk := byName["block:2txs"]
	// Block.transactions (field 2, bytes): exemplar already has 2
	out = append(out, input{target: "Block", ex: blk.name, mut: "transactions-list-len=100000(at max)", bz: append(bytes.Clone(blk.bz), rep([]byte{0x12, 0x00}, maxList-2)...)})
	out = append(out, input{target: "Block", ex: blk.name, mut: "transactions-list-len=100001(above max)", bz: append(bytes.Clone(blk.bz), rep([]byte{0x12, 0x00}, maxList-1)...), mustReject: true})
	// QC.results.orders.reset_orders (field 2 of Orders, bytes): exemplar has 1
	for _, name := range []string{"qc:precommit-vote+block+results", "blockmsg:certificate"} {
		e := byName[name]
		md := targetMsg(e.target).ProtoReflect().Descriptor()
		tree, _ := parseWire(e.bz, md)
		var orders *wnode
		walk(tree, "", false, func(n *wnode, _ string, _ bool) {
			if n.isMsg && n.msgName == "types.Orders" && orders == nil {
				orders = n
			}
		})
		if orders == nil {
			continue
		}
		for _, n := range []int{maxList, maxList + 1} {
			in := input{target: e.target, ex: e.name, mut: fmt.Sprintf("results.orders.reset_orders-list-len=%d", n), bz: encodeNodes(tree, &encOpts{appendTo: orders, extra: rep([]byte{0x12, 0x00}, n-1)})}
			if n > maxList && criticalTargets[e.target] {
				in.mustReject = true
			}
			if n > maxList && !criticalTargets[e.target] {
				in.unknownClass = "oversize-list-in-wrapper"
			}
			out = append(out, in)
		}
	}
	tm := byName["txmsg:2txs"]
	out = append(out, input{target: "TxMessage", ex: tm.name, mut: "txs-list-len=100001", bz: append(bytes.Clone(tm.bz), rep([]byte{0x12, 0x00}, maxList-1)...), unknownClass: "oversize-list-in-wrapper"})
	if big {
		tx := byName["tx:send"]
		field := func(n int) []byte {
			f := protowire.AppendTag(nil, 7, protowire.BytesType) // memo
			f = protowire.AppendVarint(f, uint64(n))
			return append(f, bytes.Repeat([]byte{'a'}, n)...)
		}
		out = append(out, input{target: "Transaction", ex: tx.name, mut: "memo-field=32MiB(at max)", bz: append(bytes.Clone(tx.bz), field(32<<20)...)})
		out = append(out, input{target: "Transaction", ex: tx.name, mut: "memo-field=32MiB+1", bz: append(bytes.Clone(tx.bz), field(32<<20+1)...), mustReject: true})
		two := append(bytes.Clone(tx.bz), field(32<<20)...)
		two = append(two, field(32<<20)...)
		out = append(out, input{target: "Transaction", ex: tx.name, mut: "message>64MiB", bz: two, mustReject: true})
	}
	return
}

// ---------------------------------------------------------------------------------------
// driver

type decodeReport struct {
	Exemplars           int                       `json:"exemplars"`
	ExemplarBytes       map[string]int            `json:"exemplar_sizes"`
	Inputs              int64                     `json:"inputs"`
	ShortStrings        int64                     `json:"short_string_inputs"`
	ByMutation          map[string]int64          `json:"inputs_by_mutation_family"`
	ByTarget            map[string]int64          `json:"inputs_by_target"`
	Decoded             int64                     `json:"inputs_accepted_by_decoder"`
	FullyAccepted       int64                     `json:"inputs_passing_every_stage"`
	Outcomes            map[string]int64          `json:"outcomes"`
	DistinctOutcomes    int                       `json:"distinct_target_outcome_classes"`
	Panics              map[string]int64          `json:"panics_by_class"`
	RecoveredPanics     map[string]int64          `json:"panics_below_an_existing_recover"`
	UnknownAccepted     map[string]map[string]int `json:"unknown_or_oversize_accepted_by_decoder"`
	UnknownChainOKPaths map[string]map[string]int `json:"unknown_or_oversize_passing_every_stage_by_placement"`
	UnknownChainOK      map[string]int            `json:"unknown_or_oversize_passing_every_stage"`
	MustRejectChecks    int64                     `json:"must_reject_checks"`
	NotDecodedInChain   int64                     `json:"unknown_field_inputs_whose_inner_decoder_runs_only_in_ApplyBlock"`
	SecondsByTarget     map[string]float64        `json:"cpu_seconds_by_target"`
	MaxInputSeconds     float64                   `json:"slowest_input_seconds"`
	SlowInputs          []map[string]any          `json:"inputs_slower_than_1s"`
	SlowestInput        string                    `json:"slowest_input"`
	Complete            bool                      `json:"complete"`
}

func mutFamily(m string) string {
	for _, p := range []string{"truncate", "bytes@", "byte@", "len(", "drop-field", "unknown-field", "unknown-group-depth", "short-string", "nested-certificates", "resigned"} {
		if strings.HasPrefix(m, p) {
			return strings.TrimRight(p, "(@")
		}
	}
	if strings.Contains(m, "list-len") {
		return "list-length"
	}
	return "oversize"
}

type slot struct {
	start atomic.Int64
	desc  atomic.Value
}

func runDecoders(r *mc.Run, w *world, rep *decodeReport) {
	ex := buildExemplars(w)
	exemplarBytes := map[string]int{}
	var inputs []input
	// thorough: pairs of substitutions on the 10 smallest exemplars
	pairSet := map[string]bool{}
	if !r.Quick() {
		sorted := append([]exemplar{}, ex...)
		sort.Slice(sorted, func(a, b int) bool { return len(sorted[a].bz) < len(sorted[b].bz) })
		for _, e := range sorted[:10] {
			pairSet[e.name] = true
		}
	}
	// the few large inputs first (so that they never start right before the soft deadline), then
	// two hand-minimised inputs so that a reported panic carries the smallest known input
	inputs = append(inputs, oversizeInputs(w, ex, true)...)
	inputs = append(inputs, input{target: "BlockMessage", ex: "hand-minimised", mut: "drop-everything-but(resultsHash,blockHash,block=field1 with declared length 2^63)",
		bz: mustMarshal(&lib.BlockMessage{BlockAndCertificate: &lib.QuorumCertificate{Header: &lib.View{}, ResultsHash: make([]byte, 32), BlockHash: make([]byte, 32),
			Block: []byte{0x0a, 0x80, 0x80, 0x80, 0x80, 0x80, 0x80, 0x80, 0x80, 0x80, 0x01}}})})
	inputs = append(inputs, input{target: "bft.Message", ex: "hand-minimised", mut: "drop-everything-but(header.phase=ELECTION,qc={})", bz: []byte{0x0a, 0x02, 0x30, 0x01, 0x1a, 0x00}})
	for _, e := range ex {
		exemplarBytes[e.name] = len(e.bz)
		win := 0
		if !r.Quick() {
			win = 2
			if pairSet[e.name] {
				win = 8
			}
		}
		inputs = append(inputs, genInputs(e, win)...)
	}
	for d := 0; d <= 40; d++ {
		inputs = append(inputs, input{target: "QuorumCertificate", ex: "qc:nested", mut: fmt.Sprintf("nested-certificates-depth=%d", d), bz: nestedCertificates(w, d)})
	}
	inputs = append(inputs, resignedInputs(w)...)
	// cheap, structure-aware families first; the bulk (byte substitutions) last, so that a soft
	// deadline on a loaded machine only ever cuts the tail of the largest family
	prio := func(in input) int {
		switch mutFamily(in.mut) {
		case "unknown-field", "unknown-group-depth", "resigned":
			return 0
		case "drop-field", "nested-certificates":
			return 1
		case "len":
			return 2
		case "truncate":
			return 3
		}
		return 4
	}
	tail := inputs[12:]
	sort.SliceStable(tail, func(a, b int) bool { return prio(tail[a]) < prio(tail[b]) })
	structured := len(inputs)
	const leadInputs = 12 // oversize + hand-minimised inputs are evaluated before everything else
	// every byte string of length <= 2, for every target
	targets := []string{"Transaction", "TxMessage", "Block", "QuorumCertificate", "BlockMessage", "BlockRequestMessage", "bft.Message", "Envelope"}
	shortN := 1 + 256 + 65536
	total := structured + shortN*len(targets)
	shortAt := func(i int) input {
		t, k := targets[i/shortN], i%shortN
		var b []byte
		switch {
		case k == 0:
			b = []byte{}
		case k <= 256:
			b = []byte{byte(k - 1)}
		default:
			b = []byte{byte((k - 257) >> 8), byte(k - 257)}
		}
		return input{target: t, mut: fmt.Sprintf("short-string:%x", b), bz: b}
	}
	// per-worker contexts, each with its own tallies and watchdog slot (no shared locks on the hot path)
	nw := 16
	ctxs := make(chan *hctx, nw)
	var all []*hctx
	newLocal := func() *decodeReport {
		return &decodeReport{ByMutation: map[string]int64{}, ByTarget: map[string]int64{}, Outcomes: map[string]int64{}, Panics: map[string]int64{}, RecoveredPanics: map[string]int64{},
			SecondsByTarget: map[string]float64{}, UnknownAccepted: map[string]map[string]int{}, UnknownChainOK: map[string]int{}, UnknownChainOKPaths: map[string]map[string]int{}}
	}
	for i := 0; i < nw; i++ {
		c := newCtx(w)
		c.rep, c.slot, c.examples = newLocal(), &slot{}, map[string]string{}
		all = append(all, c)
		ctxs <- c
	}
	stopWatch := make(chan struct{})
	go func() {
		t := time.NewTicker(time.Second)
		defer t.Stop()
		for {
			select {
			case <-stopWatch:
				return
			case <-t.C:
				for _, c := range all {
					if st := c.slot.start.Load(); st != 0 && time.Since(time.Unix(0, st)) > 60*time.Second {
						d := "?"
						if f, ok := c.slot.desc.Load().(func() string); ok {
							d = f()
						}
						r.Violation("C19:hang", "no return within the 60 s per-input watchdog: "+d, map[string]any{"part": "decode", "input": d})
						r.Exhaustive = false
						r.Finish(map[string]any{"evaluations": 1, "distinct_nontrivial": 2, "rule": "aborted by watchdog"})
					}
				}
			}
		}
	}()
	*rep = *newLocal()
	rep.Exemplars, rep.ExemplarBytes = len(ex), exemplarBytes
	done := mc.ParallelFor(total, nw, r.Expired, func(i int) {
		c := <-ctxs
		defer func() { ctxs <- c }()
		var in input
		nShort := total - structured
		switch {
		case i < leadInputs:
			in = inputs[i]
		case i < leadInputs+nShort:
			in = shortAt(i - leadInputs)
		default:
			in = inputs[i-nShort]
		}
		if in.lazy != nil {
			in.bz = in.lazy()
		}
		c.slot.desc.Store(slotDesc{in.target, in.ex, in.mut, in.bz}.String)
		t0 := time.Now()
		c.slot.start.Store(t0.UnixNano())
		res := c.handle(in.target, in.bz)
		el := time.Since(t0).Seconds()
		c.slot.start.Store(0)
		rep, unknownExample := c.rep, c.examples
		rep.Inputs++
		if strings.HasPrefix(in.mut, "short-string") {
			rep.ShortStrings++
		}
		rep.ByMutation[mutFamily(in.mut)]++
		rep.ByTarget[in.target]++
		rep.SecondsByTarget[in.target] += el
		rep.Outcomes[in.target+" "+res.outcome]++
		if res.decoded {
			rep.Decoded++
		}
		if res.outcome == "ok" {
			rep.FullyAccepted++
		}
		if el > 1.0 && len(rep.SlowInputs) < 12 {
			rep.SlowInputs = append(rep.SlowInputs, map[string]any{"seconds": el, "target": in.target, "exemplar": in.ex, "mutation": in.mut, "outcome": res.outcome, "hex": fmt.Sprintf("%x", clipB(in.bz, 4096))})
		}
		if el > rep.MaxInputSeconds {
			rep.MaxInputSeconds, rep.SlowestInput = el, fmt.Sprintf("%s %s %s", in.target, in.ex, in.mut)
		}
		if res.panic != nil {
			p := res.panic
			si := stages[p.stage]
			cls := fmt.Sprintf("%s in %s [%s]", p.fn, p.stage, clip(p.msg, 80))
			if si.recovered {
				rep.RecoveredPanics[cls]++
			} else {
				rep.Panics[cls]++
				r.Violation(fmt.Sprintf("C19:panic-escapes:%s:%s", strings.SplitN(si.listener, "(", 2)[0], p.fn),
					fmt.Sprintf("panic %q in %s escapes the handler chain of %s (no recover between the listener and this call).\n   input: %s bytes decoded as %s, derived from exemplar %q by %s\n   hex: %x\n   stack (innermost canopy frame %s):\n%s",
						p.msg, p.stage, si.listener, fmt.Sprint(len(in.bz)), in.target, in.ex, in.mut, clipB(in.bz, 600), p.fn, clip(p.stack, 1500)),
					map[string]any{"part": "decode", "target": in.target, "hex": fmt.Sprintf("%x", clipB(in.bz, 1<<16)), "exemplar": in.ex, "mutation": in.mut})
			}
		}
		if in.mustReject {
			rep.MustRejectChecks++
			if res.decoded {
				r.Violation("C19:critical-decoder-accepts:"+in.target+":"+mutFamily(in.mut),
					fmt.Sprintf("lib.Unmarshal into %s accepted an input it must reject (%s on exemplar %s); chain outcome %s\n   hex: %x", in.target, in.mut, in.ex, res.outcome, clipB(in.bz, 400)),
					map[string]any{"part": "decode", "target": in.target, "hex": fmt.Sprintf("%x", clipB(in.bz, 1<<16)), "mutation": in.mut})
			}
		}
		if in.unknownClass != "" && res.decoded {
			accepted := true
			switch in.unknownClass {
			case "tx-payload-inside-any":
				accepted = res.passed["fsm.CheckMessage"] // the stage that decodes the payload
			case "critical-type-behind-bytes-field", "oversize-list-in-wrapper":
				accepted = res.outcome == "ok" // the inner decoder / the size check runs later in the chain
			case "not-decoded-in-chain":
				accepted = false
				rep.NotDecodedInChain++
			}
			if accepted {
				if rep.UnknownAccepted[in.unknownClass] == nil {
					rep.UnknownAccepted[in.unknownClass] = map[string]int{}
				}
				rep.UnknownAccepted[in.unknownClass][in.target+": "+strings.TrimPrefix(in.mut, "unknown-field in ")]++
				if res.outcome == "ok" {
					if rep.UnknownChainOKPaths[in.unknownClass] == nil {
						rep.UnknownChainOKPaths[in.unknownClass] = map[string]int{}
					}
					rep.UnknownChainOKPaths[in.unknownClass][in.target+": "+strings.TrimPrefix(in.mut, "unknown-field in ")]++
					rep.UnknownChainOK[in.unknownClass]++
					if unknownExample[in.unknownClass+"/ok"] == "" {
						unknownExample[in.unknownClass+"/ok"] = fmt.Sprintf("%s %s %s", in.target, in.ex, in.mut)
					}
				}
				if unknownExample[in.unknownClass] == "" {
					unknownExample[in.unknownClass] = fmt.Sprintf("%s %s %s -> %s", in.target, in.ex, in.mut, res.outcome)
				}
			}
		}
	})
	close(stopWatch)
	unknownExample := map[string]string{}
	for _, c := range all {
		l := c.rep
		rep.Inputs += l.Inputs
		rep.ShortStrings += l.ShortStrings
		rep.Decoded += l.Decoded
		rep.FullyAccepted += l.FullyAccepted
		rep.MustRejectChecks += l.MustRejectChecks
		rep.NotDecodedInChain += l.NotDecodedInChain
		for k, v := range l.ByMutation {
			rep.ByMutation[k] += v
		}
		for k, v := range l.ByTarget {
			rep.ByTarget[k] += v
		}
		for k, v := range l.Outcomes {
			rep.Outcomes[k] += v
		}
		for k, v := range l.Panics {
			rep.Panics[k] += v
		}
		for k, v := range l.RecoveredPanics {
			rep.RecoveredPanics[k] += v
		}
		for k, v := range l.SecondsByTarget {
			rep.SecondsByTarget[k] += v
		}
		for k, v := range l.UnknownChainOK {
			rep.UnknownChainOK[k] += v
		}
		for cls, m := range l.UnknownChainOKPaths {
			if rep.UnknownChainOKPaths[cls] == nil {
				rep.UnknownChainOKPaths[cls] = map[string]int{}
			}
			for k, v := range m {
				rep.UnknownChainOKPaths[cls][k] += v
			}
		}
		for cls, m := range l.UnknownAccepted {
			if rep.UnknownAccepted[cls] == nil {
				rep.UnknownAccepted[cls] = map[string]int{}
			}
			for k, v := range m {
				rep.UnknownAccepted[cls][k] += v
			}
		}
		for k, v := range c.examples {
			if cur, ok := unknownExample[k]; !ok || v < cur {
				unknownExample[k] = v
			}
		}
		rep.SlowInputs = append(rep.SlowInputs, l.SlowInputs...)
		if l.MaxInputSeconds > rep.MaxInputSeconds {
			rep.MaxInputSeconds, rep.SlowestInput = l.MaxInputSeconds, l.SlowestInput
		}
	}
	rep.Complete = done == total
	rep.DistinctOutcomes = len(rep.Outcomes)
	// unknown-field / oversize acceptance classes
	var classes []string
	for cls := range rep.UnknownAccepted {
		classes = append(classes, cls)
	}
	sort.Strings(classes)
	for _, cls := range classes {
		m := rep.UnknownAccepted[cls]
		n := 0
		var paths []string
		for p, k := range m {
			n += k
			paths = append(paths, p)
		}
		sort.Strings(paths)
		var sig, head string
		switch cls {
		case "wrapper":
			sig = "C19:unknown-fields-accepted:only-top-level-Block-Transaction-QuorumCertificate-are-scanned"
			head = "lib.Unmarshal rejects unknown fields only when the TOP-LEVEL target is *Block, *Transaction or *QuorumCertificate; the production listeners decode bft.Message, BlockMessage, TxMessage and Envelope, " +
				"so a certificate (or view, aggregate signature, certificate result, evidence) that arrives inside them is never scanned"
		case "tx-payload-inside-any":
			sig = "C19:unknown-fields-accepted:transaction-payload-inside-any"
			head = "the message payload of a transaction is decoded by anypb.UnmarshalNew (lib.FromAny) without the unknown-field walk; fsm.CheckMessage accepts it"
		case "critical-type-behind-bytes-field":
			sig = "C19:unknown-fields-accepted:critical-type-behind-bytes-field"
			head = "an unknown field inside a Block/Transaction carried in a bytes field passed every stage"
		default:
			sig = "C19:oversize-accepted:" + cls
			head = "an over-long list passed every stage"
		}
		var okPaths []string
		for p := range rep.UnknownChainOKPaths[cls] {
			okPaths = append(okPaths, p)
		}
		sort.Strings(okPaths)
		r.Violation(sig, fmt.Sprintf("%s.\n   %d inputs with an unknown field are accepted by the decoder; %d of them also pass every stateless stage of the listener, with the field placed in: %s\n   all accepted placements: %s\n   first: %s",
			head, n, rep.UnknownChainOK[cls], clip(strings.Join(okPaths, " | "), 1500), clip(strings.Join(paths, " | "), 1500), unknownExample[cls]), map[string]any{"part": "decode", "class": cls})
	}
	for cls, n := range rep.RecoveredPanics {
		r.Note("panic below an existing recover (allowed): %s x%d", cls, n)
	}
}

func clipB(b []byte, n int) []byte {
	if len(b) > n {
		return b[:n]
	}
	return b
}
