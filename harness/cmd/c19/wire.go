package main

// Schema-aware protobuf wire tree: parse real encodings into a tree of fields so that
// structured mutations (declared-length replacement, unknown-field insertion, list blow-up)
// can be applied at every nesting level while the enclosing lengths are kept consistent.
// Nothing here is an oracle; it only manufactures inputs.

import (
	"google.golang.org/protobuf/encoding/protowire"
	"google.golang.org/protobuf/reflect/protoreflect"
	"google.golang.org/protobuf/reflect/protoregistry"
)

type wnode struct {
	num      protowire.Number
	typ      protowire.Type
	varint   uint64
	raw      []byte   // payload of a fixed32/fixed64/bytes leaf
	children []*wnode // non-nil: payload is a message (possibly behind an opaque bytes field)
	isMsg    bool
	msgName  string // full name of the message type of children
	opaque   bool   // children were reached through a `bytes` field (or Any.value), not a schema sub-message
	origLen  int    // payload length in the original encoding (for no-fix-up mutations)
}

// bytes fields that carry an encoded message of a known type
var embedded = map[string]map[protowire.Number]string{
	"types.QuorumCertificate": {4: "types.Block"},
	"types.Block":             {2: "types.Transaction"},
	"types.TxMessage":         {2: "types.Transaction"},
}

func findMsg(name string) protoreflect.MessageDescriptor {
	mt, err := protoregistry.GlobalTypes.FindMessageByName(protoreflect.FullName(name))
	if err != nil {
		return nil
	}
	return mt.Descriptor()
}

// parseWire parses b as message md. ok=false if b is not a clean encoding.
func parseWire(b []byte, md protoreflect.MessageDescriptor) (nodes []*wnode, ok bool) {
	for len(b) > 0 {
		num, typ, n := protowire.ConsumeTag(b)
		if n < 0 {
			return nil, false
		}
		b = b[n:]
		nd := &wnode{num: num, typ: typ}
		switch typ {
		case protowire.VarintType:
			v, m := protowire.ConsumeVarint(b)
			if m < 0 {
				return nil, false
			}
			nd.varint = v
			b = b[m:]
		case protowire.Fixed32Type:
			if len(b) < 4 {
				return nil, false
			}
			nd.raw = append([]byte{}, b[:4]...)
			b = b[4:]
		case protowire.Fixed64Type:
			if len(b) < 8 {
				return nil, false
			}
			nd.raw = append([]byte{}, b[:8]...)
			b = b[8:]
		case protowire.BytesType:
			p, m := protowire.ConsumeBytes(b)
			if m < 0 {
				return nil, false
			}
			b = b[m:]
			nd.raw = append([]byte{}, p...)
			nd.origLen = len(p)
			if md != nil {
				var sub protoreflect.MessageDescriptor
				opaque := false
				if fd := md.Fields().ByNumber(num); fd != nil && fd.Kind() == protoreflect.MessageKind && !fd.IsMap() {
					sub = fd.Message()
				} else if e, has := embedded[string(md.FullName())]; has {
					if name, has2 := e[num]; has2 {
						sub, opaque = findMsg(name), true
					}
				}
				if sub != nil {
					if ch, good := parseWire(p, sub); good {
						nd.children, nd.isMsg, nd.msgName, nd.opaque = ch, true, string(sub.FullName()), opaque
						if nd.children == nil {
							nd.children = []*wnode{}
						}
					}
				}
			}
		default:
			return nil, false
		}
		nodes = append(nodes, nd)
	}
	// google.protobuf.Any: resolve value by type_url
	if md != nil && md.FullName() == "google.protobuf.Any" {
		var url string
		for _, n := range nodes {
			if n.num == 1 && n.typ == protowire.BytesType {
				url = string(n.raw)
			}
		}
		if mt, err := protoregistry.GlobalTypes.FindMessageByURL(url); err == nil {
			for _, n := range nodes {
				if n.num == 2 && n.typ == protowire.BytesType {
					if ch, good := parseWire(n.raw, mt.Descriptor()); good {
						n.children, n.isMsg, n.msgName, n.opaque = ch, true, string(mt.Descriptor().FullName()), true
						if n.children == nil {
							n.children = []*wnode{}
						}
					}
				}
			}
		}
	}
	return nodes, true
}

// encOpts describe one structured mutation applied while re-encoding.
type encOpts struct {
	lenOf    *wnode // node whose declared length is replaced ...
	lenVal   uint64 // ... by this value
	noFixup  bool   // ancestors keep their original declared lengths
	appendTo *wnode // message node (nil = top level handled by caller) that gets extra bytes appended
	extra    []byte // bytes appended inside appendTo
	repeat   *wnode // node that is emitted `times` times instead of once
	times    int
}

func encodeNodes(nodes []*wnode, o *encOpts) []byte {
	var out []byte
	for _, n := range nodes {
		reps := 1
		if o != nil && o.repeat == n {
			reps = o.times
		}
		one := encodeNode(n, o)
		for i := 0; i < reps; i++ {
			out = append(out, one...)
		}
	}
	return out
}

func encodeNode(n *wnode, o *encOpts) []byte {
	out := protowire.AppendTag(nil, n.num, n.typ)
	switch n.typ {
	case protowire.VarintType:
		out = protowire.AppendVarint(out, n.varint)
	case protowire.Fixed32Type, protowire.Fixed64Type:
		out = append(out, n.raw...)
	case protowire.BytesType:
		payload := n.raw
		if n.isMsg {
			payload = encodeNodes(n.children, o)
			if o != nil && o.appendTo == n {
				payload = append(payload, o.extra...)
			}
		}
		declared := uint64(len(payload))
		if o != nil && o.noFixup && n.isMsg {
			declared = uint64(n.origLen)
		}
		if o != nil && o.lenOf == n {
			declared = o.lenVal
		}
		out = protowire.AppendVarint(out, declared)
		out = append(out, payload...)
	}
	return out
}

// walk visits every node depth-first with its path of message names and whether an opaque
// (bytes) boundary was crossed on the way.
func walk(nodes []*wnode, path string, crossedOpaque bool, f func(n *wnode, path string, crossedOpaque bool)) {
	for _, n := range nodes {
		f(n, path, crossedOpaque)
		if n.isMsg {
			walk(n.children, path+">"+n.msgName, crossedOpaque || n.opaque, f)
		}
	}
}
