package main

// Part 1 — sign-bytes / identity-hash injectivity.
//
// For every kind a family is generated: the base object plus every object that deviates
// from it in exactly one or exactly two fields (each field has 2-3 alternative values,
// incl. empty<->non-empty, nil<->zero and "a byte moved into the neighbouring field").
// The digest is always computed by the real canopy code. The reference notion of
// "meaning" is a protoreflect walk (field name = typed, length-explicit value) over the
// object with the deliberately-excluded members removed; it never touches the wire
// marshaller, and it identifies exactly what protobuf itself identifies (nil == empty
// for bytes / strings / lists; nil != empty for sub-messages).
//
//	rule 1: equal digest  => equal meaning              (all pairs, via grouping)
//	rule 2: equal semantic assignment => equal digest   (ignored fields really are ignored)

import (
	"bytes"
	"crypto/ed25519"
	"crypto/sha256"
	"encoding/hex"
	"fmt"
	"sort"
	"strings"

	"github.com/canopy-network/canopy/bft"
	"github.com/canopy-network/canopy/fsm"
	"github.com/canopy-network/canopy/lib"
	"github.com/canopy-network/canopy/lib/crypto"
	"google.golang.org/protobuf/proto"
	"google.golang.org/protobuf/reflect/protoreflect"
	"google.golang.org/protobuf/types/known/anypb"

	"verifharness/mc"
)

// ---------------------------------------------------------------------------------------
// deterministic material

func seedBytes(tag string, n int) []byte {
	var out []byte
	for i := 0; len(out) < n; i++ {
		h := sha256.Sum256([]byte(fmt.Sprintf("c19/%s/%d", tag, i)))
		out = append(out, h[:]...)
	}
	return out[:n]
}

func blsKey(i int) crypto.PrivateKeyI {
	b := seedBytes(fmt.Sprintf("bls%d", i), 32)
	b[0], b[31] = 0, 0 // stay below the group order whatever the byte order is
	k, err := crypto.BytesToBLS12381PrivateKey(b)
	if err != nil {
		panic(err)
	}
	return k
}

func edKey(i int) crypto.PrivateKeyI {
	return crypto.BytesToED25519Private(ed25519.NewKeyFromSeed(seedBytes(fmt.Sprintf("ed%d", i), 32)))
}

var (
	hashA = seedBytes("hashA", 32)
	hashB = seedBytes("hashB", 32)
	hashC = seedBytes("hashC", 32)
	addrA = seedBytes("addrA", 20)
	addrB = seedBytes("addrB", 20)
	pkA   = blsKey(1).PublicKey().Bytes()
	pkB   = blsKey(2).PublicKey().Bytes()
	sigA  = seedBytes("sigA", 96)
	sigB  = seedBytes("sigB", 96)
)

// ---------------------------------------------------------------------------------------
// reference meaning: protoreflect dump (independent of the wire marshaller)

func dumpMsg(sb *strings.Builder, m protoreflect.Message) {
	sb.WriteString("{")
	fds := m.Descriptor().Fields()
	for i := 0; i < fds.Len(); i++ {
		fd := fds.Get(i)
		if !m.Has(fd) {
			continue
		}
		fmt.Fprintf(sb, "%s=", fd.Name())
		v := m.Get(fd)
		switch {
		case fd.IsList():
			l := v.List()
			fmt.Fprintf(sb, "[%d:", l.Len())
			for j := 0; j < l.Len(); j++ {
				dumpVal(sb, fd, l.Get(j))
				sb.WriteString(",")
			}
			sb.WriteString("]")
		case fd.IsMap():
			var ks []string
			v.Map().Range(func(k protoreflect.MapKey, mv protoreflect.Value) bool {
				var b strings.Builder
				fmt.Fprintf(&b, "%v->", k.Interface())
				dumpVal(&b, fd.MapValue(), mv)
				ks = append(ks, b.String())
				return true
			})
			sort.Strings(ks)
			fmt.Fprintf(sb, "map%v", ks)
		default:
			dumpVal(sb, fd, v)
		}
		sb.WriteString(";")
	}
	if u := m.GetUnknown(); len(u) > 0 {
		fmt.Fprintf(sb, "unknown=b%d:%x;", len(u), []byte(u))
	}
	sb.WriteString("}")
}

func dumpVal(sb *strings.Builder, fd protoreflect.FieldDescriptor, v protoreflect.Value) {
	switch fd.Kind() {
	case protoreflect.MessageKind, protoreflect.GroupKind:
		dumpMsg(sb, v.Message())
	case protoreflect.BytesKind:
		fmt.Fprintf(sb, "b%d:%x", len(v.Bytes()), v.Bytes())
	case protoreflect.StringKind:
		fmt.Fprintf(sb, "s%d:%q", len(v.String()), v.String())
	default:
		fmt.Fprintf(sb, "%v", v.Interface())
	}
}

func meaningOf(m proto.Message) string {
	if m == nil || !m.ProtoReflect().IsValid() {
		return "<nil>"
	}
	var sb strings.Builder
	dumpMsg(&sb, m.ProtoReflect())
	return sb.String()
}

// ---------------------------------------------------------------------------------------
// family machinery

type ffield struct {
	name    string
	ignored bool          // deliberately excluded from the digest (see assumptions)
	alts    []func(o any) // alts[k] turns the base value into alternative k+1
}

type family struct {
	kind      string
	digest    string // which digest is checked
	fields    []ffield
	base      func() any
	compute   func(o any) []byte // REAL canopy code
	meaning   func(o any) string // reference
	crossKind bool               // digest is something an honest key signs (enters the cross-kind table)
}

type famObj struct {
	vec     []int
	digest  string
	meaning string
	semKey  string
}

type famResult struct {
	Kind       string `json:"kind"`
	Digest     string `json:"digest"`
	Fields     int    `json:"fields"`
	Ignored    int    `json:"ignored_fields"`
	Objects    int    `json:"objects"`
	Pairs      int64  `json:"pairs_compared"`
	Distinct   int    `json:"distinct_digests"`
	Meanings   int    `json:"distinct_meanings"`
	Violations int    `json:"violations"`
}

// triples: thorough tier also enumerates all deviations in exactly three fields
var triples bool

func (f *family) vectors() [][]int {
	n := len(f.fields)
	var out [][]int
	out = append(out, make([]int, n))
	for i := 0; i < n; i++ {
		for a := 1; a <= len(f.fields[i].alts); a++ {
			v := make([]int, n)
			v[i] = a
			out = append(out, v)
		}
	}
	for i := 0; i < n; i++ {
		for j := i + 1; j < n; j++ {
			for a := 1; a <= len(f.fields[i].alts); a++ {
				for b := 1; b <= len(f.fields[j].alts); b++ {
					v := make([]int, n)
					v[i], v[j] = a, b
					out = append(out, v)
				}
			}
		}
	}
	if triples {
		for i := 0; i < n; i++ {
			for j := i + 1; j < n; j++ {
				for k := j + 1; k < n; k++ {
					for a := 1; a <= len(f.fields[i].alts); a++ {
						for b := 1; b <= len(f.fields[j].alts); b++ {
							for c := 1; c <= len(f.fields[k].alts); c++ {
								v := make([]int, n)
								v[i], v[j], v[k] = a, b, c
								out = append(out, v)
							}
						}
					}
				}
			}
		}
	}
	return out
}

func (f *family) build(vec []int) any {
	o := f.base()
	for i, a := range vec {
		if a > 0 {
			f.fields[i].alts[a-1](o)
		}
	}
	return o
}

func (f *family) diffNames(a, b []int, onlySemantic bool) []string {
	var d []string
	for i := range a {
		if a[i] != b[i] && (!onlySemantic || !f.fields[i].ignored) {
			d = append(d, f.fields[i].name)
		}
	}
	sort.Strings(d)
	return d
}

func (f *family) describe(vec []int) string {
	var p []string
	for i, a := range vec {
		if a > 0 {
			p = append(p, fmt.Sprintf("%s#%d", f.fields[i].name, a))
		}
	}
	if len(p) == 0 {
		return "base"
	}
	return strings.Join(p, ",")
}

type crossEntry struct {
	kind, meaning, desc string
}

// runFamily evaluates one family; cross collects digests of honestly signable objects.
func runFamily(r *mc.Run, f *family, cross map[string]crossEntry) famResult {
	vecs := f.vectors()
	objs := make([]famObj, len(vecs))
	mc.ParallelFor(len(vecs), 0, nil, func(i int) {
		o := f.build(vecs[i])
		var sem []string
		for k, a := range vecs[i] {
			if !f.fields[k].ignored {
				sem = append(sem, fmt.Sprint(a))
			}
		}
		objs[i] = famObj{vec: vecs[i], digest: string(f.compute(o)), meaning: f.meaning(o), semKey: strings.Join(sem, ",")}
	})
	res := famResult{Kind: f.kind, Digest: f.digest, Fields: len(f.fields), Objects: len(objs), Pairs: int64(len(objs)) * int64(len(objs)-1) / 2}
	for _, fd := range f.fields {
		if fd.ignored {
			res.Ignored++
		}
	}
	// rule 1, singles first: a semantic field whose single deviation leaves the digest unchanged
	flagged := map[string]bool{}
	base := objs[0]
	for _, o := range objs[1:] {
		d := f.diffNames(base.vec, o.vec, false)
		if len(d) == 1 && o.digest == base.digest && o.meaning != base.meaning {
			if !flagged[d[0]] {
				flagged[d[0]] = true
				res.Violations++
				r.Violation(fmt.Sprintf("C19:digest-collision:%s:%s:fields=%s", f.kind, f.digest, d[0]),
					fmt.Sprintf("%s: two objects with different meaning share the %s.\n   A = base, B = %s\n   meaning differs at: %s\n   %s(A) = %s(B) = %x",
						f.kind, f.digest, f.describe(o.vec), diffStr(base.meaning, o.meaning), f.digest, f.digest, []byte(o.digest)),
					map[string]any{"part": "sign", "kind": f.kind, "digest": f.digest, "a": base.vec, "b": o.vec})
			}
		}
	}
	// rule 1, all pairs via grouping by digest
	byDigest := map[string][]int{}
	meanings := map[string]bool{}
	for i, o := range objs {
		byDigest[o.digest] = append(byDigest[o.digest], i)
		meanings[o.meaning] = true
	}
	res.Distinct, res.Meanings = len(byDigest), len(meanings)
	for _, idx := range byDigest {
		for x := 1; x < len(idx); x++ {
			a, b := objs[idx[0]], objs[idx[x]]
			if a.meaning == b.meaning {
				continue
			}
			// is the difference of meaning entirely due to fields already reported (or to alternatives
			// that coincide with the base value)? build the hybrid "a with b's flagged fields"
			hv := append([]int{}, a.vec...)
			for i, fd := range f.fields {
				if flagged[fd.name] {
					hv[i] = b.vec[i]
				}
			}
			if f.meaning(f.build(hv)) == b.meaning {
				continue // consequence of an already reported single-field collision
			}
			var d []string
			for i, fd := range f.fields {
				if a.vec[i] != b.vec[i] && !flagged[fd.name] && !fd.ignored {
					d = append(d, fd.name)
				}
			}
			sort.Strings(d)
			res.Violations++
			r.Violation(fmt.Sprintf("C19:digest-collision:%s:%s:fields=%s", f.kind, f.digest, strings.Join(d, "+")),
				fmt.Sprintf("%s: two objects with different meaning share the %s.\n   A = %s, B = %s\n   meaning differs at: %s\n   digest %x",
					f.kind, f.digest, f.describe(a.vec), f.describe(b.vec), diffStr(a.meaning, b.meaning), []byte(a.digest)),
				map[string]any{"part": "sign", "kind": f.kind, "digest": f.digest, "a": a.vec, "b": b.vec})
		}
	}
	// rule 2: ignored fields are ignored
	bySem := map[string]int{}
	for i, o := range objs {
		j, seen := bySem[o.semKey]
		if !seen {
			bySem[o.semKey] = i
			continue
		}
		if objs[j].digest != o.digest {
			d := f.diffNames(objs[j].vec, o.vec, false)
			res.Violations++
			r.Violation(fmt.Sprintf("C19:digest-depends-on-excluded-field:%s:%s:fields=%s", f.kind, f.digest, strings.Join(d, "+")),
				fmt.Sprintf("%s: objects %s and %s differ only in members the signer is meant to ignore, but their %s differs (%x vs %x)",
					f.kind, f.describe(objs[j].vec), f.describe(o.vec), f.digest, []byte(objs[j].digest), []byte(o.digest)),
				map[string]any{"part": "sign", "kind": f.kind, "digest": f.digest, "a": objs[j].vec, "b": o.vec})
		}
	}
	// cross-kind table
	if f.crossKind && cross != nil {
		for _, o := range objs {
			if o.digest == "" {
				continue
			}
			if e, seen := cross[o.digest]; seen && e.kind != f.kind {
				res.Violations++
				r.Violation(fmt.Sprintf("C19:cross-kind-signbytes-collision:%s:%s", e.kind, f.kind),
					fmt.Sprintf("a %s (%s) and a %s (%s) have the same sign bytes %x", e.kind, e.desc, f.kind, f.describe(o.vec), []byte(o.digest)),
					map[string]any{"part": "sign", "kind": f.kind, "b": o.vec})
			} else if !seen {
				cross[o.digest] = crossEntry{f.kind, o.meaning, f.describe(o.vec)}
			}
		}
	}
	return res
}

func (f *family) isIgnored(name string) bool {
	for _, fd := range f.fields {
		if fd.name == name {
			return fd.ignored
		}
	}
	return false
}

// diffStr shows the first place where two meaning dumps differ.
func diffStr(a, b string) string {
	i := 0
	for i < len(a) && i < len(b) && a[i] == b[i] {
		i++
	}
	st := i - 70
	if st < 0 {
		st = 0
	}
	return fmt.Sprintf("A: …%s   |   B: …%s", clip(a[st:], 200), clip(b[st:], 200))
}

func clip(s string, n int) string {
	if len(s) > n {
		return s[:n] + "…"
	}
	return s
}

// ---------------------------------------------------------------------------------------
// helpers to declare fields tersely

func fld(name string, alts ...func(o any)) ffield { return ffield{name: name, alts: alts} }
func ign(name string, alts ...func(o any)) ffield {
	return ffield{name: name, ignored: true, alts: alts}
}
func u64alts(get func(o any) *uint64) []func(o any) {
	return []func(o any){
		func(o any) { *get(o)++ },
		func(o any) { *get(o) = 0 },
		func(o any) { *get(o) = 1 << 40 },
	}
}
func bytesAlts(get func(o any) *[]byte, other []byte) []func(o any) {
	return []func(o any){
		func(o any) { *get(o) = bytes.Clone(other) },
		func(o any) { *get(o) = nil },
		func(o any) { p := get(o); *p = append(bytes.Clone(*p), 0x00) }, // one byte longer
	}
}

// moveByte moves the last byte of *from to the front of *to
func moveByte(from, to *[]byte) {
	if len(*from) == 0 {
		return
	}
	b := (*from)[len(*from)-1]
	*from = bytes.Clone((*from)[:len(*from)-1])
	*to = append([]byte{b}, *to...)
}

func viewFields(prefix string, get func(o any) *lib.View, phases ...lib.Phase) []ffield {
	fs := []ffield{
		fld(prefix+".networkId", u64alts(func(o any) *uint64 { return &get(o).NetworkId })...),
		fld(prefix+".chainId", u64alts(func(o any) *uint64 { return &get(o).ChainId })...),
		fld(prefix+".height", u64alts(func(o any) *uint64 { return &get(o).Height })...),
		fld(prefix+".rootHeight", u64alts(func(o any) *uint64 { return &get(o).RootHeight })...),
		fld(prefix+".round", u64alts(func(o any) *uint64 { return &get(o).Round })...),
		// neighbouring varints swapped ("moved into the neighbouring field")
		fld(prefix+".swap(height,rootHeight)", func(o any) { v := get(o); v.Height, v.RootHeight = v.RootHeight, v.Height }),
		fld(prefix+".swap(rootHeight,round)", func(o any) { v := get(o); v.RootHeight, v.Round = v.Round, v.RootHeight }),
	}
	var pa []func(o any)
	for _, p := range phases {
		pp := p
		pa = append(pa, func(o any) { get(o).Phase = pp })
	}
	if len(pa) > 0 {
		fs = append(fs, fld(prefix+".phase", pa...))
	}
	return fs
}

func baseView(p lib.Phase) *lib.View {
	return &lib.View{NetworkId: 1, ChainId: 2, Height: 10, RootHeight: 20, Round: 3, Phase: p}
}

func sampleResults(i int) *lib.CertificateResult {
	return &lib.CertificateResult{
		RewardRecipients: &lib.RewardRecipients{PaymentPercents: []*lib.PaymentPercents{{Address: addrA, Percent: uint64(50 + i), ChainId: 2}}},
	}
}

func sampleBlockBytes(i int) []byte {
	b := &lib.Block{BlockHeader: &lib.BlockHeader{Height: 10, Time: uint64(1000 + i), NetworkId: 1, LastBlockHash: hashA, StateRoot: hashB,
		TransactionRoot: hashC, ValidatorRoot: hashA, NextValidatorRoot: hashB, ProposerAddress: addrA}}
	_, _ = b.Hash()
	bz, _ := lib.Marshal(b)
	return bz
}

// qcFields declares the members of a quorum certificate reachable through get.
func qcFields(prefix string, get func(o any) *lib.QuorumCertificate, bodyIgnored, sigIgnored bool, phases ...lib.Phase) []ffield {
	fs := viewFields(prefix+".header", func(o any) *lib.View { return get(o).Header }, phases...)
	fs = append(fs,
		fld(prefix+".resultsHash", bytesAlts(func(o any) *[]byte { return &get(o).ResultsHash }, hashC)...),
		fld(prefix+".blockHash", bytesAlts(func(o any) *[]byte { return &get(o).BlockHash }, hashC)...),
		fld(prefix+".proposerKey", func(o any) { get(o).ProposerKey = bytes.Clone(pkA) }, func(o any) { get(o).ProposerKey = bytes.Clone(pkB) },
			func(o any) { get(o).ProposerKey = []byte{} }),
		fld(prefix+".move(resultsHash->blockHash)", func(o any) { q := get(o); moveByte(&q.ResultsHash, &q.BlockHash) }),
		fld(prefix+".move(blockHash->proposerKey)", func(o any) { q := get(o); moveByte(&q.BlockHash, &q.ProposerKey) }),
		fld(prefix+".swap(resultsHash,blockHash)", func(o any) { q := get(o); q.ResultsHash, q.BlockHash = q.BlockHash, q.ResultsHash }),
	)
	body := []ffield{
		{name: prefix + ".results(body)", ignored: bodyIgnored, alts: []func(o any){func(o any) { get(o).Results = sampleResults(1) }, func(o any) { get(o).Results = sampleResults(2) }}},
		{name: prefix + ".block(body)", ignored: bodyIgnored, alts: []func(o any){func(o any) { get(o).Block = sampleBlockBytes(1) }, func(o any) { get(o).Block = sampleBlockBytes(2) }}},
	}
	sig := []ffield{
		{name: prefix + ".aggregateSignature", ignored: sigIgnored, alts: []func(o any){
			func(o any) {
				get(o).Signature = &lib.AggregateSignature{Signature: bytes.Clone(sigA), Bitmap: []byte{0x0f}}
			},
			func(o any) {
				get(o).Signature = &lib.AggregateSignature{Signature: bytes.Clone(sigB), Bitmap: []byte{0x07}}
			},
			func(o any) {
				get(o).Signature = &lib.AggregateSignature{Signature: bytes.Clone(sigA), Bitmap: []byte{0x07}}
			}}},
	}
	return append(append(fs, body...), sig...)
}

func baseQC(p lib.Phase) *lib.QuorumCertificate {
	return &lib.QuorumCertificate{Header: baseView(p), ResultsHash: bytes.Clone(hashA), BlockHash: bytes.Clone(hashB)}
}

// qcMeaning: what a certificate / vote is a statement about.
// ELECTION_VOTE: (view, proposer key) — by design (lib/certificate.go "create a simplified
// version of the qc"; the PROPOSE message re-uses the election certificate as an envelope
// for the proposal, whose hashes are covered by the proposer's own message signature).
func qcMeaning(q *lib.QuorumCertificate) string {
	if q == nil {
		return "<nil>"
	}
	c := &lib.QuorumCertificate{Header: q.Header, ResultsHash: q.ResultsHash, BlockHash: q.BlockHash, ProposerKey: q.ProposerKey}
	if q.Header != nil && q.Header.Phase == lib.Phase_ELECTION_VOTE {
		c.ResultsHash, c.BlockHash = nil, nil
	}
	return meaningOf(c)
}

// ---------------------------------------------------------------------------------------
// the families

func txBase() *lib.Transaction {
	a, _ := anypb.New(&fsm.MessageSend{FromAddress: addrA, ToAddress: addrB, Amount: 7})
	return &lib.Transaction{MessageType: "send", Msg: a, Signature: &lib.Signature{PublicKey: bytes.Clone(pkA), Signature: bytes.Clone(sigA)},
		CreatedHeight: 5, Time: 1111, Fee: 10, Memo: "memo", NetworkId: 1, ChainId: 2, Nonce: 0}
}

func txFields(sigIgnored bool) []ffield {
	t := func(o any) *lib.Transaction { return o.(*lib.Transaction) }
	other, _ := anypb.New(&fsm.MessageSend{FromAddress: addrA, ToAddress: addrB, Amount: 8})
	return []ffield{
		fld("messageType", func(o any) { t(o).MessageType = "stake" }, func(o any) { t(o).MessageType = "" }),
		fld("msg", func(o any) { t(o).Msg = proto.Clone(other).(*anypb.Any) }, func(o any) { t(o).Msg = nil }, func(o any) { t(o).Msg = &anypb.Any{} }),
		fld("msg.typeUrl", func(o any) {
			if t(o).Msg != nil {
				t(o).Msg.TypeUrl += "x"
			}
		}, func(o any) {
			if t(o).Msg != nil {
				t(o).Msg.TypeUrl = ""
			}
		}),
		fld("msg.value", func(o any) {
			if t(o).Msg != nil {
				t(o).Msg.Value = append(bytes.Clone(t(o).Msg.Value), 0x20, 0x01)
			}
		}, func(o any) {
			if t(o).Msg != nil {
				t(o).Msg.Value = nil
			}
		}),
		fld("move(messageType->msg.typeUrl)", func(o any) {
			x := t(o)
			if x.Msg != nil && len(x.MessageType) > 0 {
				x.Msg.TypeUrl = x.MessageType[len(x.MessageType)-1:] + x.Msg.TypeUrl
				x.MessageType = x.MessageType[:len(x.MessageType)-1]
			}
		}),
		fld("move(msg.typeUrl->msg.value)", func(o any) {
			x := t(o)
			if x.Msg != nil && len(x.Msg.TypeUrl) > 0 {
				x.Msg.Value = append([]byte{x.Msg.TypeUrl[len(x.Msg.TypeUrl)-1]}, x.Msg.Value...)
				x.Msg.TypeUrl = x.Msg.TypeUrl[:len(x.Msg.TypeUrl)-1]
			}
		}),
		{name: "signature", ignored: sigIgnored, alts: []func(o any){
			func(o any) {
				t(o).Signature = &lib.Signature{PublicKey: bytes.Clone(pkB), Signature: bytes.Clone(sigB)}
			},
			func(o any) { t(o).Signature = nil },
			func(o any) {
				t(o).Signature = &lib.Signature{PublicKey: bytes.Clone(pkA), Signature: bytes.Clone(sigB)}
			}}},
		{name: "move(signature.publicKey->signature.signature)", ignored: sigIgnored, alts: []func(o any){func(o any) {
			if s := t(o).Signature; s != nil {
				moveByte(&s.PublicKey, &s.Signature)
			}
		}}},
		fld("createdHeight", u64alts(func(o any) *uint64 { return &t(o).CreatedHeight })...),
		fld("time", u64alts(func(o any) *uint64 { return &t(o).Time })...),
		fld("fee", u64alts(func(o any) *uint64 { return &t(o).Fee })...),
		fld("swap(createdHeight,time)", func(o any) { x := t(o); x.CreatedHeight, x.Time = x.Time, x.CreatedHeight }),
		fld("swap(time,fee)", func(o any) { x := t(o); x.Time, x.Fee = x.Fee, x.Time }),
		fld("memo", func(o any) { t(o).Memo = "memo2" }, func(o any) { t(o).Memo = "" }, func(o any) { t(o).Memo = "RLP" }),
		fld("networkId", u64alts(func(o any) *uint64 { return &t(o).NetworkId })...),
		fld("chainId", u64alts(func(o any) *uint64 { return &t(o).ChainId })...),
		fld("swap(networkId,chainId)", func(o any) { x := t(o); x.NetworkId, x.ChainId = x.ChainId, x.NetworkId }),
		fld("nonce", func(o any) { t(o).Nonce = 1 }, func(o any) { t(o).Nonce = 80 }, func(o any) { t(o).Nonce = 1 << 40 }),
	}
}

func msgOf(o any) *bft.Message { return o.(*bft.Message) }

func sampleDSE(i int) *bft.DoubleSignEvidence {
	a, b := baseQC(lib.Phase_PRECOMMIT_VOTE), baseQC(lib.Phase_PRECOMMIT_VOTE)
	b.BlockHash = bytes.Clone(hashC)
	a.Header.Round, b.Header.Round = uint64(i), uint64(i)
	a.Signature = &lib.AggregateSignature{Signature: bytes.Clone(sigA), Bitmap: []byte{0x0f}}
	b.Signature = &lib.AggregateSignature{Signature: bytes.Clone(sigB), Bitmap: []byte{0x03}}
	return &bft.DoubleSignEvidence{VoteA: a, VoteB: b}
}

func sampleHighQC(i int) *lib.QuorumCertificate {
	q := baseQC(lib.Phase_PROPOSE_VOTE)
	q.Header.Round = uint64(i)
	q.Block, q.Results = sampleBlockBytes(3), sampleResults(3)
	q.Signature = &lib.AggregateSignature{Signature: bytes.Clone(sigB), Bitmap: []byte{0x0f}}
	return q
}

// envelope members of a bft.Message other than header / qc
func envelopeFields(highQcIgn, dseIgn, vdfIgn, vrfIgn, tsIgn, rcIgn bool) []ffield {
	return []ffield{
		{name: "vrf", ignored: vrfIgn, alts: []func(o any){
			func(o any) { msgOf(o).Vrf = &lib.Signature{PublicKey: bytes.Clone(pkA), Signature: bytes.Clone(sigA)} },
			func(o any) { msgOf(o).Vrf = &lib.Signature{PublicKey: bytes.Clone(pkA), Signature: bytes.Clone(sigB)} },
			func(o any) { msgOf(o).Vrf = &lib.Signature{} }}},
		{name: "highQc", ignored: highQcIgn, alts: []func(o any){
			func(o any) { msgOf(o).HighQc = sampleHighQC(1) }, func(o any) { msgOf(o).HighQc = sampleHighQC(2) }, func(o any) { msgOf(o).HighQc = &lib.QuorumCertificate{} }}},
		{name: "lastDoubleSignEvidence", ignored: dseIgn, alts: []func(o any){
			func(o any) { msgOf(o).LastDoubleSignEvidence = []*bft.DoubleSignEvidence{sampleDSE(1)} },
			func(o any) { msgOf(o).LastDoubleSignEvidence = []*bft.DoubleSignEvidence{sampleDSE(1), sampleDSE(2)} },
			func(o any) { msgOf(o).LastDoubleSignEvidence = []*bft.DoubleSignEvidence{sampleDSE(2)} }}},
		{name: "vdf", ignored: vdfIgn, alts: []func(o any){
			func(o any) { msgOf(o).Vdf = &crypto.VDF{Proof: []byte{1}, Output: []byte{2}, Iterations: 3} },
			func(o any) { msgOf(o).Vdf = &crypto.VDF{Proof: []byte{1}, Output: []byte{2}, Iterations: 4} }}},
		{name: "signature(own)", ignored: true, alts: []func(o any){
			func(o any) {
				msgOf(o).Signature = &lib.Signature{PublicKey: bytes.Clone(pkB), Signature: bytes.Clone(sigB)}
			},
			func(o any) { msgOf(o).Signature = nil }}},
		{name: "timestamp", ignored: tsIgn, alts: []func(o any){func(o any) { msgOf(o).Timestamp = 1700000000000000 }, func(o any) { msgOf(o).Timestamp = 1700000000000001 }}},
		{name: "rcBuildHeight", ignored: rcIgn, alts: []func(o any){func(o any) { msgOf(o).RcBuildHeight = 19 }, func(o any) { msgOf(o).RcBuildHeight = 20 }}},
	}
}

func families() []*family {
	var out []*family

	// --- transaction: sign bytes and identity hash
	out = append(out, &family{kind: "transaction", digest: "sign-bytes", fields: txFields(true), crossKind: true,
		base:    func() any { return txBase() },
		compute: func(o any) []byte { b, _ := o.(*lib.Transaction).GetSignBytes(); return b },
		meaning: func(o any) string {
			c := proto.Clone(o.(*lib.Transaction)).(*lib.Transaction)
			c.Signature = nil
			return meaningOf(c)
		}})
	out = append(out, &family{kind: "transaction", digest: "identity-hash", fields: txFields(false),
		base:    func() any { return txBase() },
		compute: func(o any) []byte { b, _ := o.(*lib.Transaction).GetHash(); return b },
		meaning: func(o any) string { return meaningOf(o.(*lib.Transaction)) }})

	// --- quorum certificate sign bytes (= what replicas' aggregate signature covers)
	out = append(out, &family{kind: "quorum-certificate", digest: "sign-bytes",
		fields: append(qcFields("qc", func(o any) *lib.QuorumCertificate { return o.(*lib.QuorumCertificate) }, true, true,
			lib.Phase_PROPOSE_VOTE, lib.Phase_ELECTION_VOTE, lib.Phase_COMMIT),
			fld("qc.header(nil)", func(o any) { o.(*lib.QuorumCertificate).Header = nil })),
		base:    func() any { return baseQC(lib.Phase_PRECOMMIT_VOTE) },
		compute: func(o any) []byte { return o.(*lib.QuorumCertificate).SignBytes() },
		meaning: func(o any) string { return qcMeaning(o.(*lib.QuorumCertificate)) }})

	// --- replica vote: bft.Message without header, sign bytes through Message.SignBytes
	voteFields := append(qcFields("qc", func(o any) *lib.QuorumCertificate { return msgOf(o).Qc }, true, true,
		lib.Phase_PROPOSE_VOTE, lib.Phase_ELECTION_VOTE),
		envelopeFields(true, true, true, true, true, true)...)
	out = append(out, &family{kind: "replica-vote", digest: "sign-bytes", fields: voteFields, crossKind: true,
		base:    func() any { return &bft.Message{Qc: baseQC(lib.Phase_PRECOMMIT_VOTE)} },
		compute: func(o any) []byte { return msgOf(o).SignBytes() },
		meaning: func(o any) string { return "vote" + qcMeaning(msgOf(o).Qc) }})

	// --- proposer message
	propFields := append(viewFields("header", func(o any) *lib.View { return msgOf(o).Header }, lib.Phase_PRECOMMIT, lib.Phase_COMMIT, lib.Phase_ELECTION),
		qcFields("qc", func(o any) *lib.QuorumCertificate { return msgOf(o).Qc }, true, false, lib.Phase_PROPOSE_VOTE, lib.Phase_PRECOMMIT_VOTE)...)
	propFields = append(propFields, fld("qc(nil)", func(o any) { msgOf(o).Qc = nil }))
	// vdf is never read from a proposer message (bft/bft.go reads vote.Vdf only) => no meaning, excluded
	propFields = append(propFields, envelopeFields(false, false, true, false, false, false)...)
	out = append(out, &family{kind: "proposer-message", digest: "sign-bytes", fields: propFields, crossKind: true,
		base: func() any {
			q := baseQC(lib.Phase_ELECTION_VOTE)
			q.ProposerKey = bytes.Clone(pkA)
			q.Signature = &lib.AggregateSignature{Signature: bytes.Clone(sigA), Bitmap: []byte{0x0f}}
			return &bft.Message{Header: baseView(lib.Phase_PROPOSE), Qc: q}
		},
		compute: func(o any) []byte { return msgOf(o).SignBytes() },
		meaning: func(o any) string {
			c := proto.Clone(msgOf(o)).(*bft.Message)
			c.Signature, c.Vdf = nil, nil
			if c.Qc != nil {
				c.Qc.Block, c.Qc.Results = nil, nil
			}
			return "proposal" + meaningOf(c)
		}})

	// --- pacemaker message
	paceFields := append(viewFields("qc.header", func(o any) *lib.View { return msgOf(o).Qc.Header }),
		ign("qc.blockHash", func(o any) { msgOf(o).Qc.BlockHash = bytes.Clone(hashA) }),
		ign("qc.proposerKey", func(o any) { msgOf(o).Qc.ProposerKey = bytes.Clone(pkA) }),
		ign("header(non-proposer phase)", func(o any) { msgOf(o).Header = baseView(lib.Phase_ROUND_INTERRUPT) }))
	paceFields = append(paceFields, envelopeFields(true, true, true, true, true, true)...)
	out = append(out, &family{kind: "pacemaker-message", digest: "sign-bytes", fields: paceFields, crossKind: true,
		base: func() any {
			return &bft.Message{Qc: &lib.QuorumCertificate{Header: baseView(lib.Phase_ROUND_INTERRUPT)}}
		},
		compute: func(o any) []byte { return msgOf(o).SignBytes() },
		meaning: func(o any) string { return "pacemaker" + meaningOf(msgOf(o).Qc.Header) }})

	// --- double-sign evidence identity (bft/evidence.go AddDSE: block & results nulled, key = Marshal(ev))
	dse := func(o any) *bft.DoubleSignEvidence { return o.(*bft.DoubleSignEvidence) }
	dseStrip := func(e *bft.DoubleSignEvidence) *bft.DoubleSignEvidence {
		c := proto.Clone(e).(*bft.DoubleSignEvidence)
		c.VoteA.Block, c.VoteA.Results, c.VoteB.Block, c.VoteB.Results = nil, nil, nil, nil
		return c
	}
	dseFields := append(qcFields("voteA", func(o any) *lib.QuorumCertificate { return dse(o).VoteA }, true, false, lib.Phase_PROPOSE_VOTE),
		qcFields("voteB", func(o any) *lib.QuorumCertificate { return dse(o).VoteB }, true, false, lib.Phase_PROPOSE_VOTE)...)
	out = append(out, &family{kind: "double-sign-evidence", digest: "dedup-key", fields: dseFields,
		base:    func() any { return sampleDSE(1) },
		compute: func(o any) []byte { b, _ := lib.Marshal(dseStrip(dse(o))); return b },
		meaning: func(o any) string { return meaningOf(dseStrip(dse(o))) }})

	// --- certificate result hash
	cr := func(o any) *lib.CertificateResult { return o.(*lib.CertificateResult) }
	crFields := []ffield{
		fld("reward.address", bytesAlts(func(o any) *[]byte { return &cr(o).RewardRecipients.PaymentPercents[0].Address }, addrB)...),
		fld("reward.percent", u64alts(func(o any) *uint64 { return &cr(o).RewardRecipients.PaymentPercents[0].Percent })...),
		fld("reward.chainId", u64alts(func(o any) *uint64 { return &cr(o).RewardRecipients.PaymentPercents[0].ChainId })...),
		fld("reward.swap(percent,chainId)", func(o any) {
			p := cr(o).RewardRecipients.PaymentPercents[0]
			p.Percent, p.ChainId = p.ChainId, p.Percent
		}),
		fld("reward.second", func(o any) {
			cr(o).RewardRecipients.PaymentPercents = append(cr(o).RewardRecipients.PaymentPercents, &lib.PaymentPercents{Address: addrB, Percent: 1, ChainId: 2})
		}, func(o any) {
			cr(o).RewardRecipients.PaymentPercents = append(cr(o).RewardRecipients.PaymentPercents, &lib.PaymentPercents{})
		}),
		fld("reward.numberOfSamples", u64alts(func(o any) *uint64 { return &cr(o).RewardRecipients.NumberOfSamples })...),
		fld("reward(nil)", func(o any) { cr(o).RewardRecipients = nil }),
		fld("slash", func(o any) {
			cr(o).SlashRecipients = &lib.SlashRecipients{DoubleSigners: []*lib.DoubleSigner{{Id: pkA, Heights: []uint64{5}}}}
		},
			func(o any) {
				cr(o).SlashRecipients = &lib.SlashRecipients{DoubleSigners: []*lib.DoubleSigner{{Id: pkA, Heights: []uint64{5, 6}}}}
			},
			func(o any) {
				cr(o).SlashRecipients = &lib.SlashRecipients{DoubleSigners: []*lib.DoubleSigner{{Id: pkA, Heights: []uint64{5}}, {Id: pkB, Heights: []uint64{6}}}}
			},
			func(o any) { cr(o).SlashRecipients = &lib.SlashRecipients{} }),
		fld("orders.lock.orderId", bytesAlts(func(o any) *[]byte { return &cr(o).Orders.LockOrders[0].OrderId }, addrB)...),
		fld("orders.lock.chainId", u64alts(func(o any) *uint64 { return &cr(o).Orders.LockOrders[0].ChainId })...),
		fld("orders.lock.buyerReceive", bytesAlts(func(o any) *[]byte { return &cr(o).Orders.LockOrders[0].BuyerReceiveAddress }, addrA)...),
		fld("orders.lock.buyerSend", bytesAlts(func(o any) *[]byte { return &cr(o).Orders.LockOrders[0].BuyerSendAddress }, addrA)...),
		fld("orders.lock.move(buyerReceive->buyerSend)", func(o any) {
			l := cr(o).Orders.LockOrders[0]
			moveByte(&l.BuyerReceiveAddress, &l.BuyerSendAddress)
		}),
		fld("orders.lock.deadline", u64alts(func(o any) *uint64 { return &cr(o).Orders.LockOrders[0].BuyerChainDeadline })...),
		fld("orders.reset", func(o any) { cr(o).Orders.ResetOrders = [][]byte{addrA, addrB} }, func(o any) { cr(o).Orders.ResetOrders = [][]byte{append(bytes.Clone(addrA), addrB...)} },
			func(o any) { cr(o).Orders.ResetOrders = nil }, func(o any) { cr(o).Orders.ResetOrders = [][]byte{{}} }),
		fld("orders.close", func(o any) { cr(o).Orders.CloseOrders = [][]byte{addrA} }, func(o any) { cr(o).Orders.CloseOrders = [][]byte{addrA, addrB} }),
		fld("orders.move(reset->close)", func(o any) {
			x := cr(o).Orders
			if n := len(x.ResetOrders); n > 0 {
				x.CloseOrders = append([][]byte{x.ResetOrders[n-1]}, x.CloseOrders...)
				x.ResetOrders = x.ResetOrders[:n-1]
			}
		}),
		fld("checkpoint.height", u64alts(func(o any) *uint64 { return &cr(o).Checkpoint.Height })...),
		fld("checkpoint.blockHash", bytesAlts(func(o any) *[]byte { return &cr(o).Checkpoint.BlockHash }, hashB)...),
		fld("checkpoint(nil)", func(o any) { cr(o).Checkpoint = nil }),
		fld("retired", func(o any) { cr(o).Retired = true }),
		fld("dexBatch", func(o any) { cr(o).DexBatch = &lib.DexBatch{Committee: 2} }, func(o any) { cr(o).DexBatch = &lib.DexBatch{Committee: 2, ReceiptHash: hashA} },
			func(o any) { cr(o).DexBatch = &lib.DexBatch{} }),
		fld("rootDexBatch", func(o any) { cr(o).RootDexBatch = &lib.DexBatch{Committee: 2} }, func(o any) { cr(o).RootDexBatch = &lib.DexBatch{} }),
		fld("swap(dexBatch,rootDexBatch)", func(o any) { x := cr(o); x.DexBatch, x.RootDexBatch = x.RootDexBatch, x.DexBatch }),
	}
	out = append(out, &family{kind: "certificate-result", digest: "hash", fields: crFields,
		base: func() any {
			return &lib.CertificateResult{
				RewardRecipients: &lib.RewardRecipients{PaymentPercents: []*lib.PaymentPercents{{Address: bytes.Clone(addrA), Percent: 100, ChainId: 2}}},
				Orders: &lib.Orders{LockOrders: []*lib.LockOrder{{OrderId: bytes.Clone(addrA), ChainId: 2, BuyerReceiveAddress: bytes.Clone(addrB), BuyerSendAddress: bytes.Clone(addrB), BuyerChainDeadline: 99}},
					ResetOrders: [][]byte{bytes.Clone(addrA)}},
				Checkpoint: &lib.Checkpoint{Height: 10, BlockHash: bytes.Clone(hashA)},
			}
		},
		compute: func(o any) []byte { return cr(o).Hash() },
		meaning: func(o any) string { return meaningOf(cr(o)) }})

	// --- peer meta (signed in the p2p handshake)
	pm := func(o any) *lib.PeerMeta { return o.(*lib.PeerMeta) }
	out = append(out, &family{kind: "peer-meta", digest: "sign-bytes", crossKind: true,
		fields: []ffield{
			fld("networkId", u64alts(func(o any) *uint64 { return &pm(o).NetworkId })...),
			fld("chainId", u64alts(func(o any) *uint64 { return &pm(o).ChainId })...),
			fld("swap(networkId,chainId)", func(o any) { x := pm(o); x.NetworkId, x.ChainId = x.ChainId, x.NetworkId }),
			ign("signature", func(o any) { pm(o).Signature = bytes.Clone(sigB) }, func(o any) { pm(o).Signature = nil }),
		},
		base:    func() any { return &lib.PeerMeta{NetworkId: 1, ChainId: 2, Signature: bytes.Clone(sigA)} },
		compute: func(o any) []byte { return pm(o).SignBytes() },
		meaning: func(o any) string {
			return meaningOf(&lib.PeerMeta{NetworkId: pm(o).NetworkId, ChainId: pm(o).ChainId})
		}})

	// --- block header hash: Block.Hash() and BytesToBlockHash(Marshal(block)) (must agree)
	blk := func(o any) *lib.Block { return o.(*lib.Block) }
	hdrBytes := func(name string, get func(h *lib.BlockHeader) *[]byte) ffield {
		return fld("header."+name, bytesAlts(func(o any) *[]byte { return get(blk(o).BlockHeader) }, hashC)...)
	}
	hdrU64 := func(name string, get func(h *lib.BlockHeader) *uint64) ffield {
		return fld("header."+name, u64alts(func(o any) *uint64 { return get(blk(o).BlockHeader) })...)
	}
	blockFields := []ffield{
		hdrU64("height", func(h *lib.BlockHeader) *uint64 { return &h.Height }),
		ign("header.hash(self)", func(o any) { blk(o).BlockHeader.Hash = bytes.Clone(hashC) }, func(o any) { blk(o).BlockHeader.Hash = nil }),
		fld("header.networkId", func(o any) { blk(o).BlockHeader.NetworkId = 2 }, func(o any) { blk(o).BlockHeader.NetworkId = 0 }),
		hdrU64("time", func(h *lib.BlockHeader) *uint64 { return &h.Time }),
		hdrU64("numTxs", func(h *lib.BlockHeader) *uint64 { return &h.NumTxs }),
		hdrU64("totalTxs", func(h *lib.BlockHeader) *uint64 { return &h.TotalTxs }),
		hdrU64("totalVdfIterations", func(h *lib.BlockHeader) *uint64 { return &h.TotalVdfIterations }),
		fld("header.swap(numTxs,totalTxs)", func(o any) { h := blk(o).BlockHeader; h.NumTxs, h.TotalTxs = h.TotalTxs, h.NumTxs }),
		hdrBytes("lastBlockHash", func(h *lib.BlockHeader) *[]byte { return &h.LastBlockHash }),
		hdrBytes("stateRoot", func(h *lib.BlockHeader) *[]byte { return &h.StateRoot }),
		hdrBytes("transactionRoot", func(h *lib.BlockHeader) *[]byte { return &h.TransactionRoot }),
		hdrBytes("validatorRoot", func(h *lib.BlockHeader) *[]byte { return &h.ValidatorRoot }),
		hdrBytes("nextValidatorRoot", func(h *lib.BlockHeader) *[]byte { return &h.NextValidatorRoot }),
		hdrBytes("proposerAddress", func(h *lib.BlockHeader) *[]byte { return &h.ProposerAddress }),
		fld("header.move(lastBlockHash->stateRoot)", func(o any) { h := blk(o).BlockHeader; moveByte(&h.LastBlockHash, &h.StateRoot) }),
		fld("header.move(validatorRoot->nextValidatorRoot)", func(o any) { h := blk(o).BlockHeader; moveByte(&h.ValidatorRoot, &h.NextValidatorRoot) }),
		fld("header.vdf", func(o any) { blk(o).BlockHeader.Vdf = &crypto.VDF{Proof: []byte{1}, Output: []byte{2}, Iterations: 3} },
			func(o any) { blk(o).BlockHeader.Vdf = &crypto.VDF{} }),
		fld("header.lastQc", func(o any) { blk(o).BlockHeader.LastQuorumCertificate = sampleHighQC(1) }, func(o any) { blk(o).BlockHeader.LastQuorumCertificate = sampleHighQC(2) }),
		// the body is bound through transactionRoot / numTxs, not through the header hash
		ign("transactions(body)", func(o any) { blk(o).Transactions = [][]byte{{1, 2, 3}} }, func(o any) { blk(o).Transactions = [][]byte{{1, 2, 3}, {4}} }),
	}
	blockBase := func() any {
		return &lib.Block{BlockHeader: &lib.BlockHeader{Height: 10, Hash: bytes.Clone(hashA), NetworkId: 1, Time: 1000, NumTxs: 1, TotalTxs: 7, TotalVdfIterations: 3,
			LastBlockHash: bytes.Clone(hashA), StateRoot: bytes.Clone(hashB), TransactionRoot: bytes.Clone(hashA), ValidatorRoot: bytes.Clone(hashB),
			NextValidatorRoot: bytes.Clone(hashA), ProposerAddress: bytes.Clone(addrA)}}
	}
	blockMeaning := func(o any) string {
		c := proto.Clone(blk(o).BlockHeader).(*lib.BlockHeader)
		c.Hash = nil
		return meaningOf(c)
	}
	out = append(out, &family{kind: "block", digest: "header-hash(Block.Hash)", fields: blockFields, base: blockBase, meaning: blockMeaning,
		compute: func(o any) []byte { c := proto.Clone(blk(o)).(*lib.Block); h, _ := c.Hash(); return h }})
	out = append(out, &family{kind: "block", digest: "header-hash(BytesToBlockHash)", fields: blockFields, base: blockBase, meaning: blockMeaning,
		compute: func(o any) []byte {
			bz, _ := lib.Marshal(blk(o))
			h, _ := new(lib.Block).BytesToBlockHash(bz)
			return h
		}})
	return out
}

// ---------------------------------------------------------------------------------------
// signature-cache key (crypto.BatchTuple.Key, used by every VerifyBytes through CheckCache)

type sigTuple struct {
	pk       crypto.PublicKeyI
	msg, sig []byte
}

func sigCacheFamily() *family {
	t := func(o any) *sigTuple { return o.(*sigTuple) }
	pk1, pk2 := edKey(1).PublicKey(), edKey(2).PublicKey()
	return &family{kind: "signature-cache-key", digest: "BatchTuple.Key",
		fields: []ffield{
			fld("publicKey", func(o any) { t(o).pk = pk2 }),
			fld("message", func(o any) { t(o).msg = append(bytes.Clone(t(o).msg), 0x50) }, func(o any) { t(o).msg = t(o).msg[:len(t(o).msg)-1] }, func(o any) { t(o).msg = nil }),
			fld("signature", func(o any) { t(o).sig = append([]byte{0x50}, t(o).sig...) }, func(o any) { t(o).sig = t(o).sig[1:] }, func(o any) { t(o).sig = nil }),
			fld("move(message->signature)", func(o any) { moveByte(&t(o).msg, &t(o).sig) }),
			fld("move(signature->message)", func(o any) {
				x := t(o)
				if len(x.sig) > 0 {
					x.msg = append(bytes.Clone(x.msg), x.sig[0])
					x.sig = bytes.Clone(x.sig[1:])
				}
			}),
		},
		base: func() any {
			return &sigTuple{pk: pk1, msg: []byte("canonical-sign-bytes\x50"), sig: append([]byte{0x50}, seedBytes("cachesig", 63)...)}
		},
		compute: func(o any) []byte {
			bt := crypto.BatchTuple{PublicKey: t(o).pk, Message: t(o).msg, Signature: t(o).sig}
			return []byte(bt.Key())
		},
		meaning: func(o any) string {
			return fmt.Sprintf("pk=%x;msg=b%d:%x;sig=b%d:%x", t(o).pk.Bytes(), len(t(o).msg), t(o).msg, len(t(o).sig), t(o).sig)
		},
	}
}

// sigCacheWitness tries to turn the framing ambiguity of the cache key into the acceptance of
// a transaction nobody signed, through the production entry point fsm.CheckSignature.
// Returns a description if it succeeds.
type forgery struct {
	Direction   string `json:"direction"`
	Signed      string `json:"signed_tx_hex"`
	Forged      string `json:"forged_tx_hex"`
	ForgedNonce uint64 `json:"forged_nonce"`
	SigLen      int    `json:"forged_signature_len"`
	Tries       int    `json:"tries"`
	ControlOK   bool   `json:"rejected_with_cache_disabled"`
}

func sigCacheWitness() (found []forgery, err error) {
	sm := &fsm.StateMachine{} // CheckSignature does not touch the state for non-RLP transactions
	check := func(tx *lib.Transaction, signer crypto.AddressI) (ok bool, e error) {
		defer func() {
			if p := recover(); p != nil {
				e = fmt.Errorf("panic: %v", p)
			}
		}()
		_, er := sm.CheckSignature(tx, [][]byte{signer.Bytes()}, nil)
		return er == nil, nil
	}
	for _, mk := range []struct {
		name string
		key  crypto.PrivateKeyI
	}{{"ed25519", edKey(7)}, {"bls12381", blsKey(7)}} {
		signer := mk.key.PublicKey().Address()
		mkTx := func(time, nonce uint64) *lib.Transaction {
			a, _ := anypb.New(&fsm.MessageSend{FromAddress: signer.Bytes(), ToAddress: addrB, Amount: 1000})
			return &lib.Transaction{MessageType: "send", Msg: a, CreatedHeight: 5, Time: time, Fee: 10, NetworkId: 1, ChainId: 2, Nonce: nonce}
		}
		// direction 1 (always available): signer used nonce n != 0; forged tx has nonce 0 and the
		// trailing sign bytes "50 n" pushed into the signature field
		{
			t1 := mkTx(424242, 9)
			if e := t1.Sign(mk.key); e != nil {
				return nil, e
			}
			okSigned, e := check(t1, signer)
			if e != nil || !okSigned {
				return nil, fmt.Errorf("honest tx not accepted (%v)", e)
			}
			t2 := mkTx(424242, 0)
			t2.Signature = &lib.Signature{PublicKey: t1.Signature.PublicKey, Signature: append([]byte{0x50, 9}, t1.Signature.Signature...)}
			okForged, e := check(t2, signer)
			if e != nil {
				return nil, e
			}
			if okForged {
				crypto.DisableCache = true
				ctl, _ := check(t2, signer)
				crypto.DisableCache = false
				b1, _ := lib.Marshal(t1)
				b2, _ := lib.Marshal(t2)
				found = append(found, forgery{Direction: mk.name + ": signed nonce=9 -> accepted unsigned nonce=0", Signed: hex.EncodeToString(b1), Forged: hex.EncodeToString(b2),
					ForgedNonce: 0, SigLen: len(t2.Signature.Signature), Tries: 1, ControlOK: !ctl})
			}
		}
		// direction 2 (victim uses the default nonce 0): needs a signature that starts with a
		// well-formed nonce field "50 xx" (xx in 1..127), expected once per ~514 signatures
		limit := 6000
		if mk.name == "bls12381" {
			limit = 1500
		}
		for i := 0; i < limit; i++ {
			t1 := mkTx(uint64(500000+i), 0)
			if e := t1.Sign(mk.key); e != nil {
				return nil, e
			}
			s := t1.Signature.Signature
			if s[0] != 0x50 || s[1] == 0 || s[1] >= 0x80 {
				continue
			}
			if okSigned, e := check(t1, signer); e != nil || !okSigned {
				return nil, fmt.Errorf("honest tx not accepted (%v)", e)
			}
			t2 := mkTx(uint64(500000+i), uint64(s[1]))
			t2.Signature = &lib.Signature{PublicKey: t1.Signature.PublicKey, Signature: bytes.Clone(s[2:])}
			okForged, e := check(t2, signer)
			if e != nil {
				return nil, e
			}
			if okForged {
				crypto.DisableCache = true
				ctl, _ := check(t2, signer)
				crypto.DisableCache = false
				b1, _ := lib.Marshal(t1)
				b2, _ := lib.Marshal(t2)
				found = append(found, forgery{Direction: mk.name + ": signed nonce=0 -> accepted unsigned nonce!=0 (same payment, new tx hash)", Signed: hex.EncodeToString(b1),
					Forged: hex.EncodeToString(b2), ForgedNonce: uint64(s[1]), SigLen: len(t2.Signature.Signature), Tries: i + 1, ControlOK: !ctl})
			}
			break
		}
	}
	return found, nil
}
