package main

// Part 2 — composite store keys.
//
//	2a  lib.JoinLenPrefix itself on all tuples of arity 1..3 over the component domain
//	2b  every exported constructor of fsm/key.go on all argument tuples: injectivity,
//	    prefix-range exactness against a declared parent/child table, whole-segment-prefix pairs
//	2c  the (unexported) constructors of store/indexer.go + the commit-id key, observed as
//	    the raw pebble keys a real in-memory store.Store writes for one exported Index* call
//	    per tuple (sequential, one store in the process)
//	2d  versioned key layout round trip through the exported VersionedStore
//	2e  the one production instance of "a stored key is a whole-segment prefix of another
//	    stored key" (state-change journal) exercised through StateChangeKeys

import (
	"bytes"
	"encoding/binary"
	"encoding/hex"
	"fmt"
	"math"
	"sort"
	"strings"

	"github.com/canopy-network/canopy/fsm"
	"github.com/canopy-network/canopy/lib"
	"github.com/canopy-network/canopy/lib/crypto"
	"github.com/canopy-network/canopy/store"
	"github.com/cockroachdb/pebble/v2"
	"github.com/cockroachdb/pebble/v2/vfs"

	"verifharness/mc"
)

type comp struct {
	name  string
	b     []byte
	class string // "" (could be a production value of some constructor), "nil", "empty", "short", "len255", "len>255"
}

var (
	k255  = bytes.Repeat([]byte{0x41}, 255)
	addrL = func() []byte { a := bytes.Clone(addrA); a[0] = 0x01; a[1] = 0x12; return a }() // starts like "[len=1][0x12]" / like component 0x01
)

func compDomain() []comp {
	return []comp{
		{"nil", nil, "nil"},
		{"empty", []byte{}, "empty"},
		{"00", []byte{0x00}, "short"},
		{"01", []byte{0x01}, "short"},
		{"ff", []byte{0xFF}, "short"},
		{"0001", []byte{0x00, 0x01}, "short"}, // = "00" ++ "01": makes a missing length byte observable
		{"ffx8", bytes.Repeat([]byte{0xFF}, 8), "short"},
		{"addr20", addrA, ""},
		{"addr20L", addrL, ""},
		{"len255", k255, "len255"},
		{"len256", append([]byte{0xFF}, k255...), "len>255"},   // byte(256)=0 then "ff"+255 bytes parses as one more segment
		{"len300", bytes.Repeat([]byte{0xFE}, 300), "len>255"}, // byte(300)=44; the rest does not frame: an incomplete stream
	}
}

var heights = []uint64{0, 1, 255, 256, 1 << 32, math.MaxUint64}

func inRange(key, prefix []byte) bool {
	// production iteration range [p, p ++ 0xFF*257)  (store/txn.go prefixEnd, maxKeyBytes = 256)
	end := append(bytes.Clone(prefix), bytes.Repeat([]byte{0xFF}, 257)...)
	return bytes.Compare(key, prefix) >= 0 && bytes.Compare(key, end) < 0
}

// segs decodes a length-prefixed stream with an independent decoder.
func segs(k []byte) (out [][]byte, ok bool) {
	for i := 0; i < len(k); {
		l := int(k[i])
		i++
		if i+l > len(k) {
			return out, false
		}
		out = append(out, k[i:i+l])
		i += l
	}
	return out, true
}

// segPrefix: a is a proper whole-segment prefix of b
func segPrefix(a, b []byte) bool {
	if len(a) >= len(b) || !bytes.HasPrefix(b, a) {
		return false
	}
	sa, oka := segs(a)
	sb, okb := segs(b)
	if !oka || !okb || len(sa) >= len(sb) {
		return false
	}
	for i := range sa {
		if !bytes.Equal(sa[i], sb[i]) {
			return false
		}
	}
	return true
}

type keysReport struct {
	JoinTuples           int            `json:"joinlenprefix_tuples"`
	JoinDistinct         int            `json:"joinlenprefix_distinct_outputs"`
	JoinCollisions       map[string]int `json:"joinlenprefix_collision_pairs_by_class"`
	FsmCtors             int            `json:"fsm_constructors"`
	FsmTuples            int            `json:"fsm_tuples"`
	FsmDistinct          int            `json:"fsm_distinct_keys"`
	FsmRangeChecks       int64          `json:"fsm_prefix_range_checks"`
	StoreRangeKeys       int            `json:"fsm_keys_committed_for_store_range_check"`
	StoreRangeIterations int            `json:"fsm_prefix_iterations_through_the_store"`
	FsmSegPrefixProd     int            `json:"fsm_whole_segment_prefix_pairs_production_class"`
	FsmSegPrefixOther    int            `json:"fsm_whole_segment_prefix_pairs_other"`
	FsmMalformed         map[string]int `json:"fsm_malformed_keys_by_constructor"`
	IdxOps               int            `json:"indexer_index_calls"`
	IdxKeys              int            `json:"indexer_keys_observed"`
	IdxDistinct          int            `json:"indexer_distinct_keys"`
	IdxKinds             map[string]int `json:"indexer_keys_by_kind"`
	IdxRangeChecks       int64          `json:"indexer_prefix_range_checks"`
	IdxStorePanics       map[string]int `json:"indexer_store_panics_by_class"`
	IdxSegPrefixProd     int            `json:"indexer_whole_segment_prefix_pairs_production_class"`
	CommitIDKeys         int            `json:"commit_id_keys_observed"`
	VersionedRT          int            `json:"versioned_key_roundtrips"`
	Journal              string         `json:"state_change_journal_segprefix"`
	OrderIDStoreGet      string         `json:"store_get_with_overlong_order_id"`
	Evaluations          int64          `json:"evaluations"`
}

// ---------------------------------------------------------------------------------------
// 2a

func checkJoinLenPrefix(r *mc.Run, rep *keysReport) {
	dom := compDomain()
	type tup struct {
		idx []int
	}
	var tuples []tup
	for a := range dom {
		tuples = append(tuples, tup{[]int{a}})
		for b := range dom {
			tuples = append(tuples, tup{[]int{a, b}})
			for c := range dom {
				tuples = append(tuples, tup{[]int{a, b, c}})
			}
		}
	}
	desc := func(t tup) string {
		var p []string
		for _, i := range t.idx {
			p = append(p, dom[i].name)
		}
		return "(" + strings.Join(p, ",") + ")"
	}
	byOut := map[string][]int{}
	for i, t := range tuples {
		var args [][]byte
		for _, j := range t.idx {
			args = append(args, dom[j].b)
		}
		out := lib.JoinLenPrefix(args...)
		byOut[string(out)] = append(byOut[string(out)], i)
		// decode round trip for tuples whose components all fit a length byte
		fits := true
		var want [][]byte
		for _, a := range args {
			if len(a) > 255 {
				fits = false
			}
			if a != nil {
				want = append(want, a)
			}
		}
		if fits {
			got, ok := segs(out)
			same := ok && len(got) == len(want)
			for k := 0; same && k < len(got); k++ {
				same = bytes.Equal(got[k], want[k])
			}
			if !same {
				r.Violation("C19:JoinLenPrefix-roundtrip", fmt.Sprintf("JoinLenPrefix%s = %x does not decode back to its non-nil components", desc(t), out),
					map[string]any{"part": "join", "tuple": desc(t)})
			}
		}
	}
	rep.JoinTuples, rep.JoinDistinct = len(tuples), len(byOut)
	rep.JoinCollisions = map[string]int{}
	firstOf := map[string]string{}
	outs := make([]string, 0, len(byOut))
	for out := range byOut {
		outs = append(outs, out)
	}
	sort.Strings(outs)
	for _, out := range outs {
		idx := byOut[out]
		for x := 0; x < len(idx); x++ {
			for y := x + 1; y < len(idx); y++ {
				cls := "genuine"
				hasNil, hasBig := false, false
				for _, t := range []tup{tuples[idx[x]], tuples[idx[y]]} {
					for _, j := range t.idx {
						hasNil = hasNil || dom[j].class == "nil"
						hasBig = hasBig || dom[j].class == "len>255"
					}
				}
				switch {
				case hasBig:
					cls = "len>255"
				case hasNil:
					cls = "nil-skip"
				}
				rep.JoinCollisions[cls]++
				if _, seen := firstOf[cls]; !seen {
					firstOf[cls] = fmt.Sprintf("JoinLenPrefix%s == JoinLenPrefix%s == %s", desc(tuples[idx[x]]), desc(tuples[idx[y]]), clip(hex.EncodeToString([]byte(out)), 80))
				}
			}
		}
	}
	if n := rep.JoinCollisions["genuine"]; n > 0 {
		r.Violation("C19:JoinLenPrefix-collision", fmt.Sprintf("%d pairs of different tuples whose components are all non-nil and <= 255 bytes encode to the same key, e.g. %s", n, firstOf["genuine"]),
			map[string]any{"part": "join"})
	}
	if n := rep.JoinCollisions["nil-skip"]; n > 0 {
		r.Violation("C19:JoinLenPrefix-collision:class=unreachable-nil-skip",
			fmt.Sprintf("lib.JoinLenPrefix drops nil items, so the position of a nil component is lost: %d colliding tuple pairs, e.g. %s. "+
				"No production caller passes attacker-controlled nil in a non-final position (store/indexer.go passes nil only as the deliberately absent last item; "+
				"sender/recipient/event address are guarded by != nil or derived from a public key)", n, firstOf["nil-skip"]),
			map[string]any{"part": "join", "class": "nil-skip"})
	}
	if n := rep.JoinCollisions["len>255"]; n > 0 {
		r.Violation("C19:JoinLenPrefix-collision:class=unreachable-len>255",
			fmt.Sprintf("lib.JoinLenPrefix writes byte(len(item)), so an item longer than 255 bytes re-frames: %d colliding tuple pairs, e.g. %s. "+
				"The only production constructor reachable with an unbounded attacker-chosen component is fsm.KeyForOrder (MessageEditOrder/MessageDeleteOrder.OrderId is not length-checked); "+
				"it has a single trailing variable component, for which no two different ids collide (see fsm table), but the key is a malformed stream", n, firstOf["len>255"]),
			map[string]any{"part": "join", "class": "len>255"})
	}
	rep.Evaluations += int64(len(tuples))
}

// ---------------------------------------------------------------------------------------
// 2b fsm/key.go

type karg struct {
	kind string // "u64" | "addr" | "bytes"
}

type kctor struct {
	name     string
	args     []karg
	fn       func(u []uint64, b [][]byte) []byte
	stored   bool     // used as a stored key in production
	iterated bool     // used as an iteration prefix in production (read from fsm/*.go)
	isPrefix bool     // is a prefix constructor
	parents  []parent // which prefixes must contain it, sharing the first n arguments
	// production class of byte arguments: "addr" => exactly the two 20-byte components;
	// "orderid" => written with 20 bytes, but READ/DELETED with any attacker-chosen bytes
	byteClass string
}

type parent struct {
	prefix string
	shared int
}

func addrOf(b []byte) crypto.AddressI { return crypto.NewAddress(b) }

func fsmCtors() []kctor {
	u0 := func(f func() []byte) func([]uint64, [][]byte) []byte {
		return func([]uint64, [][]byte) []byte { return f() }
	}
	u1 := func(f func(uint64) []byte) func([]uint64, [][]byte) []byte {
		return func(u []uint64, _ [][]byte) []byte { return f(u[0]) }
	}
	U, A, B := karg{"u64"}, karg{"addr"}, karg{"bytes"}
	return []kctor{
		{name: "AccountPrefix", fn: u0(fsm.AccountPrefix), isPrefix: true, iterated: true},
		{name: "PoolPrefix", fn: u0(fsm.PoolPrefix), isPrefix: true, iterated: true},
		{name: "SupplyPrefix", fn: u0(fsm.SupplyPrefix), isPrefix: true, stored: true},
		{name: "ValidatorPrefix", fn: u0(fsm.ValidatorPrefix), isPrefix: true, iterated: true},
		{name: "NonSignerPrefix", fn: u0(fsm.NonSignerPrefix), isPrefix: true, iterated: true},
		{name: "LastProposersPrefix", fn: u0(fsm.LastProposersPrefix), isPrefix: true, stored: true},
		{name: "CommitteesDataPrefix", fn: u0(fsm.CommitteesDataPrefix), isPrefix: true, stored: true},
		{name: "RetiredCommitteesPrefix", fn: u0(fsm.RetiredCommitteesPrefix), isPrefix: true, iterated: true},
		{name: "UnstakingPrefix", args: []karg{U}, fn: u1(fsm.UnstakingPrefix), isPrefix: true, iterated: true},
		{name: "PausedPrefix", args: []karg{U}, fn: u1(fsm.PausedPrefix), isPrefix: true, iterated: true},
		{name: "CommitteePrefix", args: []karg{U}, fn: u1(fsm.CommitteePrefix), isPrefix: true},
		{name: "DelegatePrefix", args: []karg{U}, fn: u1(fsm.DelegatePrefix), isPrefix: true},
		{name: "OrderBookPrefix", args: []karg{U}, fn: u1(fsm.OrderBookPrefix), isPrefix: true, iterated: true, parents: []parent{{"OrderBookAll", 0}}},
		// prefixes production builds inline with JoinLenPrefix (fsm/swap.go:434, fsm/dex.go:858,994)
		{name: "OrderBookAll", fn: func([]uint64, [][]byte) []byte { return lib.JoinLenPrefix([]byte{13}) }, isPrefix: true, iterated: true},
		{name: "DexLockedAll", fn: func([]uint64, [][]byte) []byte { return lib.JoinLenPrefix([]byte{15}, []byte{1}) }, isPrefix: true, iterated: true},
		{name: "DexNextAll", fn: func([]uint64, [][]byte) []byte { return lib.JoinLenPrefix([]byte{15}, []byte{2}) }, isPrefix: true, iterated: true},

		{name: "KeyForPool", args: []karg{U}, fn: u1(fsm.KeyForPool), stored: true, parents: []parent{{"PoolPrefix", 0}}},
		{name: "KeyForNonSigner", args: []karg{B}, byteClass: "addr", fn: func(_ []uint64, b [][]byte) []byte { return fsm.KeyForNonSigner(b[0]) }, stored: true, parents: []parent{{"NonSignerPrefix", 0}}},
		{name: "KeyForOrder", args: []karg{U, B}, byteClass: "orderid", fn: func(u []uint64, b [][]byte) []byte { return fsm.KeyForOrder(u[0], b[0]) }, stored: true,
			parents: []parent{{"OrderBookPrefix", 1}, {"OrderBookAll", 0}}},
		{name: "KeyForUnstaking", args: []karg{U, A}, byteClass: "addr", fn: func(u []uint64, b [][]byte) []byte { return fsm.KeyForUnstaking(u[0], addrOf(b[0])) }, stored: true,
			parents: []parent{{"UnstakingPrefix", 1}}},
		{name: "KeyForPaused", args: []karg{U, A}, byteClass: "addr", fn: func(u []uint64, b [][]byte) []byte { return fsm.KeyForPaused(u[0], addrOf(b[0])) }, stored: true,
			parents: []parent{{"PausedPrefix", 1}}},
		{name: "KeyForCommittee", args: []karg{U, A, U}, byteClass: "addr", fn: func(u []uint64, b [][]byte) []byte { return fsm.KeyForCommittee(u[0], addrOf(b[0]), u[1]) }, stored: true,
			parents: []parent{{"CommitteePrefix", 1}}},
		{name: "KeyForDelegate", args: []karg{U, A, U}, byteClass: "addr", fn: func(u []uint64, b [][]byte) []byte { return fsm.KeyForDelegate(u[0], addrOf(b[0]), u[1]) }, stored: true,
			parents: []parent{{"DelegatePrefix", 1}}},
		{name: "KeyForRetiredCommittee", args: []karg{U}, fn: u1(fsm.KeyForRetiredCommittee), stored: true, parents: []parent{{"RetiredCommitteesPrefix", 0}}},
		{name: "KeyForAccount", args: []karg{A}, byteClass: "addr", fn: func(_ []uint64, b [][]byte) []byte { return fsm.KeyForAccount(addrOf(b[0])) }, stored: true, parents: []parent{{"AccountPrefix", 0}}},
		{name: "KeyForValidator", args: []karg{A}, byteClass: "addr", fn: func(_ []uint64, b [][]byte) []byte { return fsm.KeyForValidator(addrOf(b[0])) }, stored: true, parents: []parent{{"ValidatorPrefix", 0}}},
		{name: "KeyForParams", args: []karg{{"param"}}, fn: func(u []uint64, _ [][]byte) []byte {
			return fsm.KeyForParams([]string{fsm.ParamSpaceCons, fsm.ParamSpaceVal, fsm.ParamSpaceFee, fsm.ParamSpaceGov}[u[0]])
		}, stored: true},
		{name: "KeyForLockedBatch", args: []karg{U}, fn: u1(fsm.KeyForLockedBatch), stored: true, parents: []parent{{"DexLockedAll", 0}}},
		{name: "KeyForNextBatch", args: []karg{U}, fn: u1(fsm.KeyForNextBatch), stored: true, parents: []parent{{"DexNextAll", 0}}},
	}
}

type kinst struct {
	ctor  *kctor
	u     []uint64
	bidx  []int // index into component domain for byte args
	key   []byte
	prod  bool   // all arguments could come from a production write path
	class string // class of the non-production component, if any
	desc  string
}

func checkFsmKeys(r *mc.Run, rep *keysReport) {
	dom := compDomain()
	ctors := fsmCtors()
	rep.FsmCtors = len(ctors)
	rep.FsmMalformed = map[string]int{}
	var all []kinst
	for ci := range ctors {
		c := &ctors[ci]
		// enumerate argument tuples
		var rec func(ai int, u []uint64, bi []int, parts []string)
		rec = func(ai int, u []uint64, bi []int, parts []string) {
			if ai == len(c.args) {
				var bs [][]byte
				prod, class := true, ""
				for _, i := range bi {
					bs = append(bs, dom[i].b)
					if dom[i].class != "" {
						prod, class = false, dom[i].class
					}
				}
				inst := kinst{ctor: c, u: append([]uint64{}, u...), bidx: append([]int{}, bi...), prod: prod, class: class, desc: c.name + "(" + strings.Join(parts, ",") + ")"}
				func() {
					defer func() {
						if p := recover(); p != nil {
							r.Violation("C19:key-constructor-panic:"+c.name, fmt.Sprintf("%s panicked: %v", inst.desc, p), map[string]any{"part": "fsmkeys", "what": inst.desc})
						}
					}()
					inst.key = c.fn(inst.u, bs)
				}()
				all = append(all, inst)
				return
			}
			switch c.args[ai].kind {
			case "u64":
				for _, h := range heights {
					rec(ai+1, append(u, h), bi, append(parts, fmt.Sprint(h)))
				}
			case "param":
				for i := 0; i < 4; i++ {
					rec(ai+1, append(u, uint64(i)), bi, append(parts, fmt.Sprint("space", i)))
				}
			default:
				for i := range dom {
					rec(ai+1, u, append(bi, i), append(parts, dom[i].name))
				}
			}
		}
		rec(0, nil, nil, nil)
	}
	rep.FsmTuples = len(all)
	rep.Evaluations += int64(len(all))
	// injectivity per constructor
	distinct := map[string]bool{}
	byKey := map[string][]int{}
	for i, k := range all {
		byKey[k.ctor.name+"|"+string(k.key)] = append(byKey[k.ctor.name+"|"+string(k.key)], i)
		distinct[string(k.key)] = true
		if _, ok := segs(k.key); !ok {
			rep.FsmMalformed[k.ctor.name+":"+k.class]++
			if k.prod {
				r.Violation("C19:key-malformed:"+k.ctor.name, fmt.Sprintf("%s = %x is not a complete length-prefixed stream", k.desc, k.key), map[string]any{"part": "fsmkeys", "what": k.desc})
			}
		}
	}
	rep.FsmDistinct = len(distinct)
	for _, idx := range byKey {
		if len(idx) < 2 {
			continue
		}
		a, b := all[idx[0]], all[idx[1]]
		sig := "C19:key-collision:" + a.ctor.name
		if !(a.prod && b.prod) {
			cl := a.class
			if cl == "" {
				cl = b.class
			}
			sig += ":class=unreachable-" + cl
			if a.ctor.byteClass == "orderid" {
				sig = "C19:key-collision:" + a.ctor.name + ":class=read-path-only-" + cl
			}
		}
		r.Violation(sig, fmt.Sprintf("%s and %s produce the same key %x", a.desc, b.desc, a.key), map[string]any{"part": "fsmkeys", "a": a.desc, "b": b.desc})
	}
	// cross-constructor equality: a stored key of one constructor equal to a stored key of another
	byRaw := map[string]int{}
	for i, k := range all {
		if !k.ctor.stored || !k.prod {
			continue
		}
		if j, seen := byRaw[string(k.key)]; seen && all[j].ctor != k.ctor {
			r.Violation("C19:key-collision:"+all[j].ctor.name+"/"+k.ctor.name, fmt.Sprintf("%s and %s produce the same stored key %x", all[j].desc, k.desc, k.key),
				map[string]any{"part": "fsmkeys", "a": all[j].desc, "b": k.desc})
		} else if !seen {
			byRaw[string(k.key)] = i
		}
	}
	// prefix-range exactness
	var prefixes, keys []int
	for i, k := range all {
		if k.ctor.isPrefix {
			prefixes = append(prefixes, i)
		}
		if k.ctor.stored {
			keys = append(keys, i)
		}
	}
	for _, pi := range prefixes {
		p := all[pi]
		for _, ki := range keys {
			k := all[ki]
			rep.FsmRangeChecks++
			want := false
			if k.ctor == p.ctor {
				want = bytes.Equal(k.key, p.key)
			}
			for _, par := range k.ctor.parents {
				if par.prefix == p.ctor.name {
					want = true
					for s := 0; s < par.shared; s++ {
						if k.u[s] != p.u[s] {
							want = false
						}
					}
				}
			}
			got := inRange(k.key, p.key)
			if got != want {
				sig := fmt.Sprintf("C19:prefix-range:%s/%s", p.ctor.name, k.ctor.name)
				if !k.prod {
					sig += ":class=unreachable-" + k.class
				}
				r.Violation(sig, fmt.Sprintf("key %s = %x in iteration range of %s = %x: got %v want %v (prefix iterated in production: %v)", k.desc, k.key, p.desc, p.key, got, want, p.ctor.iterated),
					map[string]any{"part": "fsmkeys", "key": k.desc, "prefix": p.desc})
			}
		}
	}
	rep.Evaluations += rep.FsmRangeChecks
	checkFsmRangesThroughStore(r, rep, all, prefixes, keys)
	// whole-segment-prefix pairs among stored keys
	sorted := append([]int{}, keys...)
	sort.Slice(sorted, func(a, b int) bool { return bytes.Compare(all[sorted[a]].key, all[sorted[b]].key) < 0 })
	var example string
	for x := 0; x < len(sorted); x++ {
		a := all[sorted[x]]
		for y := x + 1; y < len(sorted); y++ {
			b := all[sorted[y]]
			if !bytes.HasPrefix(b.key, a.key) {
				break
			}
			if segPrefix(a.key, b.key) {
				if a.prod && b.prod {
					rep.FsmSegPrefixProd++
					if example == "" {
						example = a.desc + " is a whole-segment prefix of " + b.desc
					}
				} else {
					rep.FsmSegPrefixOther++
				}
			}
		}
	}
	if rep.FsmSegPrefixProd > 0 {
		r.Violation("C19:segment-prefix-keys:fsm", fmt.Sprintf("%d pairs of production-class state keys where one is a whole-segment prefix of the other (the store mis-iterates this class, see C10), e.g. %s",
			rep.FsmSegPrefixProd, example), map[string]any{"part": "fsmkeys"})
	}
}

// checkFsmRangesThroughStore binds inRange (the harness's statement of the production iteration range) to the store:
// every production-class stored key is committed to a real pebble database through the exported VersionedStore (several
// versions each, so that the iterator's "skip the other versions of this key" seek runs too), and every production-class
// prefix is then iterated, forwards and backwards, through the store's own iterator. What comes back must be exactly the
// committed keys that start with the prefix.
func checkFsmRangesThroughStore(r *mc.Run, rep *keysReport, all []kinst, prefixes, keys []int) {
	db, err := pebble.Open("", &pebble.Options{FS: vfs.NewMem(), FormatMajorVersion: pebble.FormatColumnarBlocks, Logger: lib.NewNullLogger()})
	if err != nil {
		panic(err)
	}
	defer db.Close()
	written := map[string]bool{}
	b := db.NewBatch()
	vs := store.NewVersionedStore(nil, b, 0)
	for _, ki := range keys {
		k := all[ki]
		if !k.prod || len(k.key) == 0 || len(k.key) > 200 || written[string(k.key)] {
			continue
		}
		written[string(k.key)] = true
		for v := uint64(1); v <= 3; v++ {
			if e := vs.SetAt(bytes.Clone(k.key), []byte{byte(v)}, v); e != nil {
				panic(e)
			}
		}
	}
	if e := db.Apply(b, pebble.NoSync); e != nil {
		panic(e)
	}
	b.Close()
	var sortedKeys []string
	for k := range written {
		sortedKeys = append(sortedKeys, k)
	}
	sort.Strings(sortedKeys)
	snap := db.NewSnapshot()
	defer snap.Close()
	rd := store.NewVersionedStore(snap, nil, 3)
	seenPrefix := map[string]bool{}
	for _, pi := range prefixes {
		p := all[pi]
		if !p.prod || len(p.key) == 0 || seenPrefix[string(p.key)] {
			continue
		}
		seenPrefix[string(p.key)] = true
		var want []string
		for _, k := range sortedKeys {
			if bytes.HasPrefix([]byte(k), p.key) {
				want = append(want, k)
			}
		}
		for _, reverse := range []bool{false, true} {
			var got []string
			func() {
				defer func() {
					if pv := recover(); pv != nil {
						got = append(got, fmt.Sprintf("panic: %v", pv))
					}
				}()
				var it lib.IteratorI
				var e lib.ErrorI
				if reverse {
					it, e = rd.RevIterator(bytes.Clone(p.key))
				} else {
					it, e = rd.Iterator(bytes.Clone(p.key))
				}
				if e != nil {
					got = append(got, "error: "+e.Error())
					return
				}
				defer it.Close()
				for n := 0; it.Valid() && n <= len(sortedKeys)+1; it.Next() {
					got = append(got, string(it.Key()))
					n++
				}
			}()
			if reverse {
				sort.Strings(got)
			}
			rep.StoreRangeIterations++
			rep.Evaluations += int64(len(sortedKeys))
			if strings.Join(got, "\x00|") != strings.Join(want, "\x00|") {
				extra, missing := "", ""
				ws := map[string]bool{}
				for _, k := range want {
					ws[k] = true
				}
				gs := map[string]bool{}
				for _, k := range got {
					gs[k] = true
					if !ws[k] && extra == "" {
						extra = fmt.Sprintf("%x", k)
					}
				}
				for _, k := range want {
					if !gs[k] && missing == "" {
						missing = fmt.Sprintf("%x", k)
					}
				}
				dir := "forward"
				if reverse {
					dir = "reverse"
				}
				r.Violation("C19:prefix-range:store-iterator:"+p.ctor.name, fmt.Sprintf("%s iteration of %s = %x over %d committed production-class keys returned %d keys, %d start with the prefix (first foreign key %s, first missing key %s)",
					dir, p.desc, p.key, len(sortedKeys), len(got), len(want), extra, missing), map[string]any{"part": "fsmkeys", "prefix": p.desc})
			}
		}
	}
	rep.StoreRangeKeys = len(sortedKeys)
}

// ---------------------------------------------------------------------------------------
// 2c store/indexer.go through a real store

type idxKey struct {
	kind  string
	tuple string // the arguments this key is a function of
	lead  string // the arguments shared with the iteration prefix of its kind
	key   []byte
	prod  bool
	class string
	op    string
}

// which op arguments each indexer key kind depends on / is iterated by (read from store/indexer.go)
var idxKinds = map[byte]struct {
	name      string
	iterDepth int // number of leading segments (incl. the kind segment) of the production iteration prefix; 0 = not iterated
}{
	1: {"txHash", 0}, 2: {"txHeight", 2}, 3: {"txSender", 2}, 4: {"txRecipient", 2}, 5: {"blockHash", 0}, 6: {"blockHeight", 1}, 7: {"qcHeight", 0},
	8: {"doubleSigner", 1}, 9: {"checkpoint", 2}, 10: {"eventAddress", 2}, 11: {"eventHeight", 2}, 12: {"eventChainId", 2}, 13: {"eventHash", 0}, 14: {"stateChange", 2},
}

func be(u uint64) []byte { b := make([]byte, 8); binary.BigEndian.PutUint64(b, u); return b }

func checkIndexerKeys(r *mc.Run, rep *keysReport, quick bool) {
	// nil is not a value the Index* calls can receive in production: a tx hash is decoded from a hex
	// string, the sender is a public-key address, and a nil recipient / event address is skipped by a guard
	dom := compDomain()[1:]
	rep.IdxKinds, rep.IdxStorePanics = map[string]int{}, map[string]int{}
	cfg := lib.DefaultConfig()
	cfg.StoreConfig.IndexByAccount = true
	var s *store.Store
	open := func() {
		st, err := store.NewStoreInMemory(lib.NewNullLogger(), cfg)
		if err != nil {
			panic(err)
		}
		s = st.(*store.Store)
	}
	open()
	defer func() { _ = s.Close() }()
	idxPrefix, cidPrefix := lib.JoinLenPrefix([]byte("i/")), lib.JoinLenPrefix([]byte("x/"))
	var observed []idxKey
	commitIDs := map[string]uint64{}
	// collect returns the user keys written under prefix at the version just committed
	collect := func(prefix []byte, version uint64) (out [][]byte) {
		it, err := s.DB().NewIter(&pebble.IterOptions{LowerBound: prefix, UpperBound: append(bytes.Clone(prefix), 0xFF, 0xFF, 0xFF, 0xFF)})
		if err != nil {
			panic(err)
		}
		defer it.Close()
		for ok := it.First(); ok; ok = it.Next() {
			k := it.Key()
			if len(k) < len(prefix)+8 {
				r.Violation("C19:versioned-key-layout", fmt.Sprintf("raw key %x shorter than prefix+version", k), nil)
				continue
			}
			if ^binary.BigEndian.Uint64(k[len(k)-8:]) != version {
				continue
			}
			out = append(out, bytes.Clone(k[len(prefix):len(k)-8]))
		}
		return
	}
	type opSpec struct {
		name  string
		class string
		prod  bool
		// tuple / lead per key kind
		tuples map[byte][2]string
		do     func() lib.ErrorI
	}
	run := func(o opSpec) {
		rep.IdxOps++
		var err lib.ErrorI
		panicked := func() (p any) {
			defer func() { p = recover() }()
			if err = o.do(); err == nil {
				_, err = s.Commit()
			}
			return nil
		}()
		if panicked != nil {
			rep.IdxStorePanics[o.class]++
			if o.prod {
				r.Violation("C19:indexer-panic:"+strings.SplitN(o.name, "(", 2)[0], fmt.Sprintf("%s with production-class arguments panicked: %v", o.name, panicked), map[string]any{"part": "idxkeys", "op": o.name})
			}
			_ = s.Close()
			open()
			return
		}
		if err != nil {
			rep.IdxStorePanics["error:"+o.class]++
			s.Reset()
			return
		}
		v := s.Version()
		for _, k := range collect(idxPrefix, v) {
			sg, ok := segs(k)
			if !ok || len(sg) == 0 || len(sg[0]) != 1 {
				if o.prod {
					r.Violation("C19:key-malformed:indexer", fmt.Sprintf("%s wrote indexer key %x which is not a well-formed segment stream", o.name, k), map[string]any{"part": "idxkeys", "op": o.name})
				}
				rep.IdxKinds["malformed:"+o.class]++
				continue
			}
			kb := sg[0][0]
			kd, known := idxKinds[kb]
			if !known {
				r.Violation("C19:indexer-unknown-kind", fmt.Sprintf("%s wrote key %x with unknown kind byte %d", o.name, k, kb), nil)
				continue
			}
			if kb == 14 {
				continue // journal disabled here; handled in 2e
			}
			tl := o.tuples[kb]
			observed = append(observed, idxKey{kind: kd.name, tuple: tl[0], lead: tl[1], key: k, prod: o.prod, class: o.class, op: o.name})
			rep.IdxKinds[kd.name]++
		}
		for _, k := range collect(cidPrefix, v) {
			if sg, ok := segs(k); ok && len(sg) == 1 && string(sg[0]) == fmt.Sprint(v) {
				if pv, seen := commitIDs[string(k)]; seen && pv != v {
					r.Violation("C19:key-collision:commitID", fmt.Sprintf("commit-id key %x used for versions %d and %d", k, pv, v), nil)
				}
				commitIDs[string(k)] = v
			}
		}
	}
	cls := func(cs ...comp) (bool, string) {
		for _, c := range cs {
			if c.class != "" {
				return false, c.class
			}
		}
		return true, ""
	}
	hs := heights
	if quick {
		hs = []uint64{0, 1, 256, math.MaxUint64}
	}
	// double signers
	for _, c := range dom {
		for _, h := range heights {
			c, h := c, h
			p, cl := cls(c)
			run(opSpec{name: fmt.Sprintf("IndexDoubleSigner(%s,%d)", c.name, h), prod: p, class: cl,
				tuples: map[byte][2]string{8: {c.name + "," + fmt.Sprint(h), ""}},
				do:     func() lib.ErrorI { return s.IndexDoubleSigner(c.b, h) }})
		}
	}
	// checkpoints
	for _, c := range heights {
		for _, h := range heights {
			c, h := c, h
			run(opSpec{name: fmt.Sprintf("IndexCheckpoint(%d,%d)", c, h), prod: true,
				tuples: map[byte][2]string{9: {fmt.Sprint(c, ",", h), fmt.Sprint(c)}},
				do:     func() lib.ErrorI { return s.IndexCheckpoint(c, &lib.Checkpoint{Height: h, BlockHash: hashA}) }})
		}
	}
	// quorum certificates and blocks
	for _, h := range heights {
		h := h
		run(opSpec{name: fmt.Sprintf("IndexQC(%d)", h), prod: true, tuples: map[byte][2]string{7: {fmt.Sprint(h), ""}},
			do: func() lib.ErrorI {
				return s.IndexQC(&lib.QuorumCertificate{Header: &lib.View{Height: h}, BlockHash: hashA, ResultsHash: hashB})
			}})
		for _, c := range dom {
			c := c
			p, cl := cls(c)
			if len(c.b) == 20 {
				p = false // a block hash is 32 bytes in production; 20-byte values are only structural probes
				cl = "short"
			}
			run(opSpec{name: fmt.Sprintf("IndexBlock(hash=%s,height=%d)", c.name, h), prod: p, class: cl,
				tuples: map[byte][2]string{5: {c.name, ""}, 6: {fmt.Sprint(h), ""}},
				do: func() lib.ErrorI {
					return s.IndexBlock(&lib.BlockResult{BlockHeader: &lib.BlockHeader{Height: h, Hash: c.b}})
				}})
		}
	}
	run(opSpec{name: "IndexBlock(hash=32bytes,height=7)", prod: true, tuples: map[byte][2]string{5: {"hash32", ""}, 6: {"7", ""}},
		do: func() lib.ErrorI {
			return s.IndexBlock(&lib.BlockResult{BlockHeader: &lib.BlockHeader{Height: 7, Hash: hashB}})
		}})
	// transactions: hash = sender = recipient = component; every key kind depends only on its own arguments
	for _, c := range dom {
		for _, h := range hs {
			for _, i := range hs {
				c, h, i := c, h, i
				p, cl := cls(c)
				hi := fmt.Sprint(h, ",", i)
				run(opSpec{name: fmt.Sprintf("IndexTx(hash=sender=recipient=%s,height=%d,index=%d)", c.name, h, i), prod: p, class: cl,
					tuples: map[byte][2]string{1: {hex.EncodeToString(c.b), ""}, 2: {hi, fmt.Sprint(h)}, 3: {c.name + "," + hi, c.name}, 4: {c.name + "," + hi, c.name}},
					do: func() lib.ErrorI {
						return s.IndexTx(&lib.TxResult{Sender: c.b, Recipient: c.b, MessageType: "send", Height: h, Index: i, TxHash: hex.EncodeToString(c.b),
							Transaction: &lib.Transaction{MessageType: "send", Time: 1}})
					}})
			}
		}
	}
	// events
	chains := []uint64{1, 256, math.MaxUint64}
	for _, c := range dom {
		for _, h := range hs {
			for _, i := range []uint64{0, 1, 256} {
				for _, ch := range chains {
					c, h, i, ch := c, h, i, ch
					p, cl := cls(c)
					hi := fmt.Sprint(h, ",", i)
					run(opSpec{name: fmt.Sprintf("IndexEvent(address=%s,height=%d,index=%d,chain=%d)", c.name, h, i, ch), prod: p, class: cl,
						tuples: map[byte][2]string{13: {fmt.Sprint(hex.EncodeToString(c.b), ",", h, ",", ch), ""}, 11: {hi, fmt.Sprint(h)}, 12: {fmt.Sprint(ch, ",", hi), fmt.Sprint(ch)}, 10: {c.name + "," + hi, c.name}},
						do: func() lib.ErrorI {
							return s.IndexEvent(&lib.Event{EventType: "x", Height: h, ChainId: ch, Address: c.b}, int(i))
						}})
				}
			}
		}
	}
	rep.IdxKeys, rep.CommitIDKeys = len(observed), len(commitIDs)
	rep.Evaluations += int64(rep.IdxOps)
	// injectivity per kind
	byKey := map[string]int{}
	distinct := map[string]bool{}
	for i, k := range observed {
		distinct[string(k.key)] = true
		id := k.kind + "|" + string(k.key)
		if j, seen := byKey[id]; seen {
			if observed[j].tuple != k.tuple {
				a := observed[j]
				sig := "C19:key-collision:indexer:" + k.kind
				if !(a.prod && k.prod) {
					cl := a.class
					if cl == "" {
						cl = k.class
					}
					sig = "C19:key-collision:indexer:class=unreachable-" + cl
				}
				r.Violation(sig, fmt.Sprintf("indexer %s key %x written for (%s) by %s and for (%s) by %s", k.kind, k.key, a.tuple, a.op, k.tuple, k.op), map[string]any{"part": "idxkeys"})
			}
		} else {
			byKey[id] = i
		}
	}
	rep.IdxDistinct = len(distinct)
	// prefix-range exactness: prefixes are the leading segments of real keys
	type pfx struct {
		kind, lead string
		p          []byte
		prod       bool
		class      string
	}
	pset := map[string]pfx{}
	for _, k := range observed {
		var depth int
		for _, kd := range idxKinds {
			if kd.name == k.kind {
				depth = kd.iterDepth
			}
		}
		if depth == 0 {
			continue
		}
		sg, _ := segs(k.key)
		if len(sg) < depth {
			continue
		}
		n := 0
		for d := 0; d < depth; d++ {
			n += 1 + len(sg[d])
		}
		pset[string(k.key[:n])] = pfx{k.kind, k.lead, k.key[:n], k.prod, k.class}
	}
	for _, p := range pset {
		for _, k := range observed {
			rep.IdxRangeChecks++
			want := k.kind == p.kind && k.lead == p.lead
			if got := inRange(k.key, p.p); got != want {
				sig := fmt.Sprintf("C19:prefix-range:indexer:%s/%s", p.kind, k.kind)
				if !(p.prod && k.prod) {
					cl := p.class
					if cl == "" {
						cl = k.class
					}
					sig = "C19:prefix-range:indexer:class=unreachable-" + cl
				}
				r.Violation(sig, fmt.Sprintf("indexer key %x (%s of %s) in iteration range of %s prefix %x (lead %s): got %v want %v", k.key, k.kind, k.tuple, p.kind, p.p, p.lead, got, want),
					map[string]any{"part": "idxkeys", "op": k.op})
			}
		}
	}
	rep.Evaluations += rep.IdxRangeChecks
	// whole-segment-prefix pairs among the observed production-class indexer keys
	var pk [][]byte
	for _, k := range observed {
		if k.prod {
			pk = append(pk, k.key)
		}
	}
	sort.Slice(pk, func(a, b int) bool { return bytes.Compare(pk[a], pk[b]) < 0 })
	for x := 0; x < len(pk); x++ {
		for y := x + 1; y < len(pk) && bytes.HasPrefix(pk[y], pk[x]); y++ {
			if segPrefix(pk[x], pk[y]) {
				rep.IdxSegPrefixProd++
				if rep.IdxSegPrefixProd == 1 {
					r.Violation("C19:segment-prefix-keys:indexer", fmt.Sprintf("indexer key %x is a whole-segment prefix of indexer key %x (the store mis-iterates this class, see C10)", pk[x], pk[y]), map[string]any{"part": "idxkeys"})
				}
			}
		}
	}
}

// ---------------------------------------------------------------------------------------
// 2d versioned key layout through the exported VersionedStore

func checkVersionedKeys(r *mc.Run, rep *keysReport) {
	db, err := pebble.Open("", &pebble.Options{FS: vfs.NewMem(), FormatMajorVersion: pebble.FormatColumnarBlocks, Logger: lib.NewNullLogger()})
	if err != nil {
		panic(err)
	}
	defer db.Close()
	userKeys := [][]byte{fsm.KeyForAccount(addrOf(addrA)), fsm.KeyForAccount(addrOf(addrL)), fsm.KeyForCommittee(math.MaxUint64, addrOf(addrA), math.MaxUint64),
		fsm.KeyForPool(0), lib.JoinLenPrefix(bytes.Repeat([]byte{0xFF}, 8)), lib.JoinLenPrefix([]byte{}, []byte{0x00}), fsm.SupplyPrefix()}
	versions := []uint64{0, 1, 255, 256, 1 << 32, math.MaxUint64 - 1, math.MaxUint64}
	b := db.NewBatch()
	vs := store.NewVersionedStore(nil, b, 0)
	for ki, k := range userKeys {
		for _, v := range versions {
			if e := vs.SetAt(k, append(be(v), byte(ki)), v); e != nil {
				panic(e)
			}
		}
	}
	if e := db.Apply(b, pebble.NoSync); e != nil {
		panic(e)
	}
	b.Close()
	// raw layout: userKey ++ BE(^version)
	raw := map[string]bool{}
	it, _ := db.NewIter(nil)
	for ok := it.First(); ok; ok = it.Next() {
		raw[string(it.Key())] = true
	}
	it.Close()
	for _, k := range userKeys {
		for _, v := range versions {
			rep.VersionedRT++
			if !raw[string(append(bytes.Clone(k), be(^v)...))] {
				r.Violation("C19:versioned-key-layout", fmt.Sprintf("SetAt(%x, version %d) did not write raw key userKey++BE(^version)", k, v), nil)
			}
		}
	}
	if len(raw) != len(userKeys)*len(versions) {
		r.Violation("C19:versioned-key-collision", fmt.Sprintf("%d (key,version) pairs produced %d raw keys", len(userKeys)*len(versions), len(raw)), nil)
	}
	// read back at every version
	for ki, k := range userKeys {
		for _, v := range versions {
			snap := db.NewSnapshot()
			rd := store.NewVersionedStore(snap, nil, v)
			got, e := rd.Get(k)
			snap.Close()
			rep.VersionedRT++
			want := append(be(v), byte(ki))
			if e != nil || !bytes.Equal(got, want) {
				r.Violation("C19:versioned-key-roundtrip", fmt.Sprintf("Get(%x) at version %d returned %x (err %v), want %x", k, v, got, e, want), nil)
			}
		}
	}
	rep.Evaluations += int64(rep.VersionedRT)
}

// checkOverlongOrderID shows what the store does with the key fsm.KeyForOrder builds from an order id
// longer than 255 bytes (MessageEditOrder / MessageDeleteOrder do not bound OrderId; GetAuthorizedSignersFor
// -> GetOrder -> store.Get runs inside CheckTx, i.e. below ApplyBlock's recover).
func checkOverlongOrderID(r *mc.Run, rep *keysReport) {
	st, err := store.NewStoreInMemory(lib.NewNullLogger())
	if err != nil {
		panic(err)
	}
	s := st.(*store.Store)
	defer s.Close()
	key := fsm.KeyForOrder(2, bytes.Repeat([]byte{0xFE}, 300))
	func() {
		defer func() {
			if p := recover(); p != nil {
				rep.OrderIDStoreGet = fmt.Sprintf("store.Get(KeyForOrder(2, 300 x 0xFE)) PANICS: %v", p)
			}
		}()
		_, e := s.Get(key)
		rep.OrderIDStoreGet = fmt.Sprintf("store.Get(KeyForOrder(2, 300 x 0xFE)) returned err=%v", e)
	}()
	r.Note("over-long order id (reachable from an unsigned MessageEditOrder/MessageDeleteOrder through CheckTx -> GetAuthorizedSignersFor -> GetOrder): %s; "+
		"in production this is below ApplyBlock's recover, so the node survives, but Mempool.CheckMempool then fails on every pass while the transaction stays in the pool", rep.OrderIDStoreGet)
	rep.Evaluations++
}

// ---------------------------------------------------------------------------------------
// 2e state-change journal: [14][version] is stored AND is a whole-segment prefix of [14][version]++stateKey

func checkJournal(r *mc.Run, rep *keysReport) {
	cfg := lib.DefaultConfig()
	cfg.StoreConfig.StateChangeJournalEnabled = true
	st, err := store.NewStoreInMemory(lib.NewNullLogger(), cfg)
	if err != nil {
		panic(err)
	}
	s := st.(*store.Store)
	defer s.Close()
	var outcomes []string
	for round := 0; round < 3; round++ {
		want := map[string]bool{}
		ks := [][]byte{fsm.KeyForAccount(addrOf(addrA)), fsm.KeyForAccount(addrOf(addrL)), fsm.KeyForPool(uint64(round)), fsm.KeyForValidator(addrOf(addrA))}
		for _, k := range ks[:2+round%3] {
			if e := s.Set(k, []byte{byte(round + 1)}); e != nil {
				panic(e)
			}
			want[string(k)] = true
		}
		if _, e := s.Commit(); e != nil {
			panic(e)
		}
		got, avail, e := s.StateChangeKeys(s.Version(), nil)
		gotSet := map[string]bool{}
		for _, k := range got {
			gotSet[string(k)] = true
		}
		ok := e == nil && avail && len(gotSet) == len(want)
		for k := range want {
			ok = ok && gotSet[k]
		}
		accGot, _, _ := s.StateChangeKeys(s.Version(), fsm.AccountPrefix())
		outcomes = append(outcomes, fmt.Sprintf("v%d:all=%d/%d,accounts=%d,ok=%v", s.Version(), len(gotSet), len(want), len(accGot), ok))
		if !ok {
			r.Violation("C19:segment-prefix-keys:state-change-journal",
				fmt.Sprintf("with StateChangeJournalEnabled the indexer stores the marker key [14][version] and the keys [14][version]++stateKey (marker is a whole-segment prefix of the entries); "+
					"StateChangeKeys(%d, nil) returned %d of the %d keys written (available=%v err=%v)", s.Version(), len(gotSet), len(want), avail, e), map[string]any{"part": "journal"})
		}
	}
	rep.Journal = "marker [14][version] is a whole-segment prefix of every journal entry; StateChangeKeys results: " + strings.Join(outcomes, " ") + " (journal is disabled by default)"
	rep.Evaluations += 6
}
