// C14 — slashing accountability, part (a) evidence soundness: at every distinct state of the
// C01 round-level BFS, every ordered pair of certificates the adversary saw (plus header
// re-targeting) is handed as double-sign evidence to a real honest node's ProcessDSE; a
// validator that signed at most one payload per view must never be named.
package main

import "verifharness/bftworld"

func main() { bftworld.Main("C14") }
