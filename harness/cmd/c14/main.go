// C14 — slashing accountability.
//
// Part (a) evidence soundness (bftworld): at every distinct state of the C01 round-level BFS,
// every ordered pair of certificates the adversary saw (plus header re-targeting) is handed as
// double-sign evidence to a real honest node's ProcessDSE; a validator that signed at most one
// payload per view must never be named.
//
// Part (b) evidence-to-stake pipeline (chain.go): replay-BFS over which evidence reaches the
// leader of each block on two real controller-level nodes; at-most-once per (validator, root
// height), expiry, the per-committee cap, and Byzantine-proposer slash lists against
// replica-side validation.
package main

import (
	"flag"
	"fmt"
	"os"

	"verifharness/bftworld"
	"verifharness/mc"
)

var partFlag = flag.String("part", "", "only this part: bft | chain")
var cdepthFlag = flag.Int("cdepth", 0, "override the depth of the chain part")

func main() {
	if mc.IsWorker() {
		mc.ServeWorker(func(j cjob) cresult { return execChain(j) })
	}
	bftworld.PartFraction = 0.5
	bftworld.Extra = chainPart
	bftworld.ReplayHook = chainReplay
	bftworld.SkipShared = func() bool { return *partFlag == "chain" }
	bftworld.Main("C14")
}

type chainSearch struct {
	start, depth, ops, maxFrontier int
	minStake                       uint64
}

// attributionPart: committees larger than the BFS worlds' (9, 12 and, thorough, 17 validators: more than one bitmap byte).
func attributionPart(r *mc.Run, cov map[string]any) {
	sizes := []int{9, 12}
	if !r.Quick() {
		sizes = []int{9, 12, 16, 17}
	}
	total := 0
	for _, n := range sizes {
		vs, cases := bftworld.AttributionViols(n)
		total += cases
		for _, v := range vs {
			r.OnViol(v)
		}
	}
	// committees that carry members without voting power (positions 1 and 4 of 9; position 0 of 12 in thorough)
	zsets := [][]int{{9, 1, 4}}
	if !r.Quick() {
		zsets = append(zsets, []int{12, 5}, []int{10, 8, 9})
	}
	for _, z := range zsets {
		vs, cases := bftworld.AttributionViols(z[0], z[1:]...)
		total += cases
		for _, v := range vs {
			r.OnViol(v)
		}
	}
	cov["attribution_zero_power_committees"] = zsets
	cov["attribution_cases"] = total
	cov["attribution_committee_sizes"] = sizes
	fmt.Printf("attribution part: committees %v, %d signer sets (every one or two positions), each followed by its padded-bitmap replay\n", sizes, total)
}

func chainPart(r *mc.Run, cov map[string]any) {
	if *partFlag != "chain" {
		attributionPart(r, cov)
	}
	if *partFlag == "bft" {
		return
	}
	// quick: the 9-list alphabet from genesis to depth 3, and from a chain that is already 3 and 5
	// blocks long (evidence of root heights 1..2 expired there) to depth 2
	searches := []chainSearch{{0, 3, quickOps, 0, 0}, {3, 2, quickOps, 0, 0}, {5, 2, quickOps, 0, 0}, {3, 1, quickOps, 0, 95_000}}
	if !r.Quick() {
		searches = []chainSearch{{0, 4, len(evLists), 0, 0}, {3, 3, len(evLists), 0, 0}, {5, 3, len(evLists), 0, 0}, {3, 3, len(evLists), 0, 95_000}, {0, 6, quickOps, 400, 0}}
	}
	if *cdepthFlag > 0 {
		for i := range searches {
			searches[i].depth = *cdepthFlag
		}
	}
	pool := mc.NewProcPool(0)
	var states, probes, accepted, maxSlashed int
	var transitions int64
	var per []map[string]any
	complete := true
	for _, s := range searches {
		s := s
		if r.Expired() {
			complete = false
			break
		}
		stateProbes := map[string]bool{}
		run := func(paths [][]int, probe bool) ([]*cresult, []bool) {
			jobs := make([]cjob, len(paths))
			for i, p := range paths {
				jobs[i] = cjob{Start: s.start, Path: p, Probe: probe, MinStake: s.minStake}
			}
			return mc.Map[cjob, cresult](pool, jobs, r.Expired)
		}
		// level-wise replay-BFS (mc.ReplayBFS cannot carry the extra result fields)
		seen := map[string]bool{}
		frontier := [][]int{{}}
		rr, _ := run(frontier, false)
		if rr[0] == nil || rr[0].HarnessErr != "" {
			msg := "no result"
			if rr[0] != nil {
				msg = rr[0].HarnessErr
			}
			fmt.Println("HARNESS ERROR (chain part, initial state):", msg)
			os.Exit(2)
		}
		seen[rr[0].Key] = true
		nStates, nTrans, depthDone := 1, int64(0), 0
		fr := []int{1}
		for d := 0; d < s.depth && len(frontier) > 0; d++ {
			var paths [][]int
			for _, p := range frontier {
				for o := 0; o < s.ops; o++ {
					paths = append(paths, append(append([]int{}, p...), o))
				}
			}
			res, crashed := run(paths, true)
			var nf [][]int
			missing := false
			for i, x := range res {
				if crashed[i] {
					r.Violation("C14:worker-crash", fmt.Sprintf("worker died twice on start=%d path=%v", s.start, paths[i]), map[string]any{"part": "chain", "start": s.start, "path": paths[i]})
					continue
				}
				if x == nil {
					missing = true
					continue
				}
				nTrans++
				if x.HarnessErr != "" {
					fmt.Printf("HARNESS ERROR (chain part) start=%d path=%v: %s\n", s.start, paths[i], x.HarnessErr)
					os.Exit(2)
				}
				for _, v := range x.Viols {
					r.OnViol(v)
				}
				probes += x.Probes
				accepted += x.Accepted
				if x.Slashes > maxSlashed {
					maxSlashed = x.Slashes
				}
				if !x.OK || seen[x.Key] {
					continue
				}
				seen[x.Key] = true
				stateProbes[x.Key] = true
				nf = append(nf, paths[i])
			}
			if missing {
				complete = false
				break
			}
			depthDone = d + 1
			nStates += len(nf)
			fr = append(fr, len(nf))
			if s.maxFrontier > 0 && len(nf) > s.maxFrontier {
				nf = nf[:s.maxFrontier]
				complete = false
			}
			frontier = nf
		}
		if depthDone < s.depth {
			complete = false
		}
		states += nStates
		transitions += nTrans
		per = append(per, map[string]any{"start_height": s.start + 1, "min_stake": s.minStake, "depth": s.depth, "depth_completed": depthDone, "alphabet": s.ops, "states": nStates, "transitions": nTrans, "frontier_per_depth": fr})
		fmt.Printf("chain part: start=%d minstake=%d depth=%d/%d ops=%d states=%d transitions=%d frontier=%v\n", s.start+1, s.minStake, depthDone, s.depth, s.ops, nStates, nTrans, fr)
		if len(frontier) > 0 {
			p := frontier[len(frontier)/2]
			var names []string
			for _, op := range p {
				names = append(names, listName(op))
			}
			r.AddSample(map[string]any{"part": "chain", "start_height": s.start + 1, "evidence_reaching_the_leader_per_block": names})
		}
	}
	if !complete {
		r.Exhaustive = false
	}
	r.Assumptions = append(r.Assumptions,
		"chain part: own-root chain, 4 validators with compounding off, every certificate signed by the whole committee (no non-sign slashes); unstaking blocks 2, double-sign slash 10%, per-committee cap 15%, protocol version 2",
		"chain part: the leader receives evidence the way ELECTION_VOTE messages deliver it (bft.AddDSE); the replica validates what the PROPOSE message would carry; expiry is judged with one block of slack (rootHeight + unstakingBlocks + 1 < proposal height)",
	)
	var lists []string
	for i := range evLists {
		lists = append(lists, listName(i))
	}
	cov["chain_part"] = map[string]any{"searches": per, "states": states, "transitions": transitions, "byzantine_proposer_probes": probes, "probes_accepted_by_replica": accepted,
		"max_pairs_slashed_on_one_path": maxSlashed, "evidence_lists": lists, "complete": complete}
	if s, ok := cov["states"].(int); ok {
		cov["states"] = s + states
	} else {
		cov["states"] = states
	}
	switch t := cov["transitions"].(type) {
	case int64:
		cov["transitions"] = t + transitions
		cov["traces_validated_against_impl"] = int(t + transitions)
	default:
		cov["transitions"] = transitions
		cov["traces_validated_against_impl"] = int(transitions)
	}
	if maxSlashed == 0 {
		r.Note("chain part: no path slashed anybody: the slashing oracles were only exercised on refusals")
	}
}

func chainReplay(r *mc.Run) bool {
	var rp struct {
		Part  string `json:"part"`
		Start int    `json:"start"`
		Path  []int  `json:"path"`
		Min   uint64 `json:"min_stake"`
	}
	var at struct {
		N    int   `json:"attribution"`
		Zero []int `json:"zero"`
	}
	if err := r.LoadReplay(&at); err == nil && at.N > 0 {
		// an attribution case: the committee (size, zero-power positions) is the case; all its signer sets are run again
		sigs := map[string]int{}
		for i := 0; i < 5; i++ {
			vs, _ := bftworld.AttributionViols(at.N, at.Zero...)
			for _, v := range vs {
				if sigs[v.Sig] == 0 {
					r.OnViol(v)
				}
				sigs[v.Sig]++
			}
		}
		fmt.Printf("replay outcomes (5 runs): %v\n", sigs)
		r.Finish(map[string]any{"states": 1, "transitions": 5, "traces_validated_against_impl": 5})
		return true
	}
	if err := r.LoadReplay(&rp); err != nil || rp.Part != "chain" {
		return false
	}
	outcomes := map[string]int{}
	for i := 0; i < 5; i++ {
		pool := mc.NewProcPool(1)
		res, _ := mc.Map[cjob, cresult](pool, []cjob{{Start: rp.Start, Path: rp.Path, Probe: true, MinStake: rp.Min}}, func() bool { return false })
		if res[0] == nil {
			fmt.Println("HARNESS ERROR: no result")
			os.Exit(2)
		}
		sig := ""
		for _, v := range res[0].Viols {
			sig += v.Sig + ";"
			if i == 0 {
				r.OnViol(v)
			}
		}
		outcomes[res[0].Key+"|"+sig+res[0].HarnessErr]++
	}
	fmt.Println("replay outcomes (5 runs):", outcomes)
	if len(outcomes) != 1 {
		fmt.Println("HARNESS ERROR: replay is not deterministic")
		os.Exit(2)
	}
	r.Finish(map[string]any{"states": 1, "transitions": len(rp.Path), "traces_validated_against_impl": 1})
	return true
}
