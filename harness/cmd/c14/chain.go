// C14 part (b) — from evidence to stake: at-most-once, expiry, per-committee cap, and the
// interaction of proposer-claimed slash lists with replica-side validation.
//
// World: two real controller-level nodes (env.Node, own-root chain): P proposes, R validates
// as a replica; both commit. The harness is the adversary. It owns every validator key and
// therefore the ground truth of who signed which payload in which view; it assembles
// double-sign evidence objects (real equivocation, the same pair under another round, a
// framed validator through a padded bitmap, a vote re-targeted from another round) and
// decides, block by block, which evidence reaches the honest leader (exactly the way
// ELECTION_VOTE messages deliver it: bft.AddDSE into the leader's ByzantineEvidence).
//
// Transition = one block: P.ProduceProposal(evidence) -> R.ValidateProposal -> +2/3
// certificate -> both commit. On own-root chains the slash list of certificate h is applied
// by BeginBlock of h+1, so stake deltas of block h+1 are compared with what certificate h
// carried. On every state a menu of Byzantine-proposer probes is run on R: results whose
// slash list claims more than the attached evidence supports.
//
// Oracles (exactly the clauses of the property):
//
//	L1  every (validator, root height) pair in a slash list accepted by ValidateProposal
//	    (a) names a validator that really signed two payloads in a view of that root height,
//	    (b) was not carried by any earlier committed certificate of this chain,
//	    (c) is not expired: rootHeight + unstakingBlocks + 1 >= proposal height
//	        (the node's own rule is rootHeight >= height - unstakingBlocks; one block of slack);
//	L2  a validator's stake decreases in block h+1 only if certificate h carried such a pair
//	    for it (everybody signs every certificate: no non-sign slashes), by at most
//	    MaxSlashPerCommittee percent of its stake before the block;
//	L3  every entry of the store's double-signer index is a pair of ground truth.
package main

import (
	"fmt"
	"os"
	"runtime/debug"
	"runtime/pprof"
	"sort"
	"strings"

	"github.com/canopy-network/canopy/bft"
	"github.com/canopy-network/canopy/fsm"
	"github.com/canopy-network/canopy/lib"
	"github.com/canopy-network/canopy/lib/crypto"

	"verifharness/env"
	"verifharness/mc"
)

const (
	unstakingBlocks = 2
	dsPercent       = 10
	capPercent      = 15
	nVals           = 4
)

// evItem is one double-sign evidence object the adversary can present.
type evItem struct {
	name   string
	rh     uint64 // root height (= chain height on an own-root chain) of the double-signed view
	round  uint64
	a, b   []int // key indices that really sign payload A / payload B in that view
	pad    []int // bits added to VoteB's bitmap without a signature (framing attempt)
	retarg bool  // VoteB is signed under round+1 and its header rewritten to round (framing attempt)
}

var evItems = []evItem{
	{name: "A(V1@1)", rh: 1, a: []int{1, 2, 3}, b: []int{1}},
	{name: "A2(V1@1,round1)", rh: 1, round: 1, a: []int{0, 1}, b: []int{1}},
	{name: "B(V1@2)", rh: 2, a: []int{1, 2}, b: []int{1, 3}},
	{name: "C(V1,V2@1)", rh: 1, a: []int{0, 1, 2}, b: []int{1, 2}},
	{name: "D(V2@2)", rh: 2, a: []int{2}, b: []int{2, 3}},
	{name: "F(V1@3)", rh: 3, a: []int{1}, b: []int{0, 1}},
	{name: "X(pad V2@2)", rh: 2, a: []int{1, 2}, b: []int{3}, pad: []int{2}},
	{name: "Y(retarget V2@2)", rh: 2, a: []int{2, 3}, b: []int{2}, retarg: true},
	{name: "G(V1@4)", rh: 4, a: []int{1, 3}, b: []int{1}},
	{name: "H(V3@5)", rh: 5, a: []int{3}, b: []int{3, 0}},
}

const (
	eA = iota
	eA2
	eB
	eC
	eD
	eF
	eX
	eY
	eG
	eH
)

// truth returns the validators that really signed two payloads in the item's view.
func (it evItem) truth() (out []int) {
	if it.retarg {
		return nil // VoteB's signatures are over another view: nobody signed B in this view
	}
	for _, x := range it.a {
		for _, y := range it.b {
			if x == y {
				out = append(out, x)
			}
		}
	}
	return
}

// the block alphabet: which evidence reaches the leader of this block (in this order)
var evLists = [][]int{
	{},
	{eA}, {eB}, {eC}, {eA, eA2}, {eB, eF}, {eX}, {eA, eX}, {eC, eD}, {eG}, {eF, eG},
	{eA2}, {eD}, {eF}, {eY}, {eA, eC}, {eB, eD, eF}, {eH}, {eB, eG}, {eG, eH},
}

const quickOps = 11 // the first quickOps lists form the quick alphabet

func listName(op int) string {
	var s []string
	for _, i := range evLists[op] {
		s = append(s, evItems[i].name)
	}
	return "[" + strings.Join(s, " ") + "]"
}

type pair struct {
	V  int
	RH uint64
}

func (p pair) String() string { return fmt.Sprintf("(V%d,rh%d)", p.V, p.RH) }

type cworld struct {
	P, R      *env.Node
	carried   map[pair]uint64 // pair -> height of the committed certificate that carried it
	pending   []pair          // pairs carried by the last committed certificate (applied by the next BeginBlock)
	pendingH  uint64
	truth     map[pair]bool
	viols     []mc.Viol
	path      []int
	start     int
	probes    int
	accepted  int // probes accepted by the replica (each is then checked with L1)
	fsmProbes int

	committees map[uint64]lib.ValidatorSet
	minStake   uint64
}

func cgenesis(minStake uint64) *fsm.GenesisState {
	acc := map[int]uint64{0: 1_000_000, 1: 1_000_000, 2: 1_000_000, 3: 1_000_000, 10: 1_000_000}
	var vals []env.ValSpec
	for i := 0; i < nVals; i++ {
		vals = append(vals, env.ValSpec{Key: i, Stake: 100_000 + uint64(i), OutputKey: -1})
	}
	return env.NewGenesis(acc, vals, func(p *fsm.Params) {
		p.Consensus.ProtocolVersion = fsm.NewProtocolVersion(0, 2)
		v := p.Validator
		// the delegate lock-up is an independent governance parameter and deliberately longer: committee members are
		// accountable for the validator period only (a window derived from the delegate period accepts expired evidence)
		v.UnstakingBlocks, v.DelegateUnstakingBlocks = unstakingBlocks, unstakingBlocks+4
		v.DoubleSignSlashPercentage, v.MaxSlashPerCommittee = dsPercent, capPercent
		v.NonSignWindow, v.MaxNonSign = 100, 90
		// with a minimum stake just below the genesis stakes the first slash of a validator also starts
		// its forced unstaking (another path through SlashValidator)
		v.MinimumStakeForValidators = minStake
	})
}

func newCWorld(start int, minStake uint64) (*cworld, error) {
	g := cgenesis(minStake)
	w := &cworld{carried: map[pair]uint64{}, truth: map[pair]bool{}, start: start}
	for _, it := range evItems {
		for _, v := range it.truth() {
			w.truth[pair{v, it.rh}] = true
		}
	}
	var err error
	if w.P, err = env.NewNode(g, env.NodeOpts{Name: "P", Key: 0}); err != nil {
		return nil, err
	}
	if w.R, err = env.NewNode(g, env.NodeOpts{Name: "R", Key: 1}); err != nil {
		w.close()
		return nil, err
	}
	return w, nil
}

func (w *cworld) close() {
	for _, n := range []*env.Node{w.P, w.R} {
		if n != nil {
			n.Close()
		}
	}
}

func pubOf(i int) []byte { return env.BLS(i).PublicKey().Bytes() }

func keyIndex(pub []byte) int {
	for i := 0; i < 16; i++ {
		if string(pubOf(i)) == string(pub) {
			return i
		}
	}
	return -1
}

// build makes a fresh evidence object (AddDSE and the wire both mutate / copy it).
func (w *cworld) build(n *env.Node, it evItem) (*bft.DoubleSignEvidence, error) {
	// the committee of a committed root height never changes (C13): load it once per world
	vs, ok := w.committees[it.rh]
	if !ok {
		var e lib.ErrorI
		if vs, e = n.Committee(it.rh); e != nil {
			return nil, fmt.Errorf("committee at root height %d: %v", it.rh, e)
		}
		if w.committees == nil {
			w.committees = map[uint64]lib.ValidatorSet{}
		}
		if it.rh < n.Height() {
			w.committees[it.rh] = vs
		}
	}
	view := func(round uint64) *lib.View {
		return &lib.View{NetworkId: env.NetworkID, ChainId: env.ChainID, Height: it.rh, RootHeight: it.rh, Round: round, Phase: lib.Phase_PROPOSE_VOTE}
	}
	mk := func(tag string, round uint64, signers []int) (*lib.QuorumCertificate, error) {
		qc := &lib.QuorumCertificate{Header: view(round), BlockHash: crypto.Hash([]byte("blk" + tag + it.name)), ResultsHash: crypto.Hash([]byte("res" + tag + it.name)), ProposerKey: pubOf(0)}
		if _, e := env.SignQC(vs, qc, signers); e != nil {
			return nil, fmt.Errorf("sign: %v", e)
		}
		return qc, nil
	}
	qa, err := mk("A", it.round, it.a)
	if err != nil {
		return nil, err
	}
	rb := it.round
	if it.retarg {
		rb++
	}
	qb, err := mk("B", rb, it.b)
	if err != nil {
		return nil, err
	}
	if it.retarg {
		qb.Header.Round = it.round
	}
	if len(it.pad) > 0 {
		m := vs.MultiKey.Copy()
		if er := m.SetBitmap(qb.Signature.Bitmap); er != nil {
			return nil, er
		}
		// find the committee index of each padded key and set its bit
		for _, k := range it.pad {
			for i, v := range vs.ValidatorSet.ValidatorSet {
				if string(v.PublicKey) == string(pubOf(k)) {
					bm := append([]byte{}, qb.Signature.Bitmap...)
					bm[i/8] |= 1 << (uint(i) % 8)
					qb.Signature.Bitmap = bm
				}
			}
		}
	}
	return &bft.DoubleSignEvidence{VoteA: qa, VoteB: qb}, nil
}

func (w *cworld) stakes(n *env.Node) (map[int]uint64, error) {
	l, e := env.ReadLedger(n.FSM())
	if e != nil {
		return nil, e
	}
	out := map[int]uint64{}
	for i := 0; i < nVals; i++ {
		out[i] = l.Stakes[lib.BytesToString(env.Addr(env.BLS(i)).Bytes())]
	}
	return out, nil
}

func (w *cworld) viol(kind, what string) {
	var names []string
	for _, op := range w.path {
		names = append(names, listName(op))
	}
	w.viols = append(w.viols, mc.Viol{Sig: "C14:" + kind, What: fmt.Sprintf("start height %d, evidence per block %v: %s", w.start+1, names, what),
		Replay: map[string]any{"part": "chain", "start": w.start, "path": w.path, "names": names, "min_stake": w.minStake}})
}

// checkList applies L1 to a slash list accepted for the block at height h.
func (w *cworld) checkList(who string, h uint64, ds []*lib.DoubleSigner) (pairs []pair) {
	seen := map[pair]bool{}
	for _, d := range ds {
		if d == nil {
			continue
		}
		v := keyIndex(d.Id)
		for _, rh := range d.Heights {
			p := pair{v, rh}
			pairs = append(pairs, p)
			if seen[p] {
				w.viol("pair-listed-twice-in-one-certificate:"+who, fmt.Sprintf("height %d: %v appears twice in the accepted slash list", h, p))
			}
			seen[p] = true
			if !w.truth[p] {
				w.viol("honest-validator-implicated:"+who, fmt.Sprintf("height %d: accepted slash list names %v, which signed at most one payload in every view of that root height", h, p))
			}
			if at, ok := w.carried[p]; ok {
				w.viol("pair-carried-twice:"+who, fmt.Sprintf("height %d: accepted slash list names %v, already carried by the certificate of height %d", h, p, at))
			}
			if rh+unstakingBlocks+1 < h {
				w.viol("expired-evidence-accepted:"+who, fmt.Sprintf("height %d: accepted slash list names %v although evidence below root height %d is expired (unstaking blocks %d)", h, p, h-unstakingBlocks, unstakingBlocks))
			}
		}
	}
	return
}

// step runs one block with the given evidence list reaching the leader. last: run the probes.
func (w *cworld) step(op int, probe bool) (ok bool, fatal error) {
	h := w.P.Height()
	pre, e := w.stakes(w.P)
	if e != nil {
		return false, e
	}
	// the leader collects evidence from ELECTION_VOTE messages through AddDSE
	w.P.Enter()
	if er := refresh(w.P); er != nil {
		return false, er
	}
	be := &bft.ByzantineEvidence{DSE: bft.NewDSE()}
	for _, i := range evLists[op] {
		if evItems[i].rh > h {
			continue // a view of a future root height does not exist yet
		}
		ev, err := w.build(w.P, evItems[i])
		if err != nil {
			return false, err
		}
		_ = w.P.Ctrl.Consensus.AddDSE(&be.DSE, ev) // a refusal is what an honest leader does with bad evidence
	}
	rc, blkBz, res, er := w.P.Ctrl.ProduceProposal(be, nil)
	if er != nil {
		w.viol("chain-cannot-continue", fmt.Sprintf("height %d: the honest leader cannot produce a proposal: %v", h, er))
		return false, nil
	}
	blk := new(lib.Block)
	if er = lib.Unmarshal(blkBz, blk); er != nil {
		return false, er
	}
	p := &env.Proposal{RCBuildHeight: rc, BlockBytes: blkBz, Block: blk, Results: res, Evidence: &bft.ByzantineEvidence{DSE: bft.NewDSE(be.DSE.Evidence)}}
	var ds []*lib.DoubleSigner
	if res.SlashRecipients != nil {
		ds = res.SlashRecipients.DoubleSigners
	}
	if _, er = w.R.ValidateProposal(p, 0, true); er != nil {
		// C11's subject (an honest proposal must be accepted); here it only ends the path
		w.viol("replica-rejects-honest-proposal-with-evidence", fmt.Sprintf("height %d: %v", h, er))
		return false, nil
	}
	newPairs := w.checkList("honest-proposer", h, ds)
	if probe {
		if err := w.probeByzantineProposer(p, h); err != nil {
			return false, err
		}
		if err := w.probeFSMAtMostOnce(h); err != nil {
			return false, err
		}
	}
	qc, er := w.P.Certify(p, 0, nil, 0)
	if er != nil {
		return false, er
	}
	msg := &lib.BlockMessage{ChainId: env.ChainID, BlockAndCertificate: qc, Time: 1_700_000_000_000_000}
	wire, er := env.WireCopy(msg)
	if er != nil {
		return false, er
	}
	if er = w.R.HandlePeerBlock(wire, false); er != nil {
		w.viol("chain-cannot-continue", fmt.Sprintf("height %d: the replica cannot commit the certified block: %v", h, er))
		return false, nil
	}
	if er = w.P.HandlePeerBlock(msg, false); er != nil {
		w.viol("chain-cannot-continue", fmt.Sprintf("height %d: the proposer cannot commit its own certified block: %v", h, er))
		return false, nil
	}
	post, e := w.stakes(w.P)
	if e != nil {
		return false, e
	}
	// L2: stake deltas of this block against the pairs the previous certificate carried
	w.checkStakes(h, pre, post)
	for _, p := range newPairs {
		if _, ok := w.carried[p]; !ok {
			w.carried[p] = h
		}
	}
	w.pending, w.pendingH = newPairs, h
	// L3: the index only holds pairs of ground truth
	idx, er := w.P.Store().GetDoubleSigners()
	if er != nil {
		return false, er
	}
	for _, d := range idx {
		v := -1
		for i := 0; i < nVals; i++ {
			if string(env.Addr(env.BLS(i)).Bytes()) == string(d.Id) {
				v = i
			}
		}
		for _, rh := range d.Heights {
			if !w.truth[pair{v, rh}] {
				w.viol("honest-validator-in-double-signer-index", fmt.Sprintf("after height %d the index holds (V%d, rh%d)", h, v, rh))
			}
		}
	}
	return true, nil
}

func (w *cworld) checkStakes(h uint64, pre, post map[int]uint64) {
	cnt := map[int]int{}
	for _, p := range w.pending {
		cnt[p.V]++
	}
	for v := 0; v < nVals; v++ {
		if post[v] >= pre[v] {
			continue
		}
		loss := pre[v] - post[v]
		if cnt[v] == 0 {
			w.viol("slashed-without-accepted-evidence", fmt.Sprintf("block %d: V%d lost %d of %d stake but the certificate of height %d carried no pair for it (carried %v)", h, v, loss, pre[v], w.pendingH, w.pending))
		}
		// cap: sequential percent slashes adding up to <= cap% never take more than ceil(cap% of the stake before)
		if max := (pre[v]*capPercent + 99) / 100; loss > max {
			w.viol("slash-exceeds-per-committee-cap", fmt.Sprintf("block %d: V%d lost %d of %d stake (%d pairs carried), the cap of %d%% allows %d", h, v, loss, pre[v], cnt[v], capPercent, max))
		}
	}
}

func refresh(n *env.Node) lib.ErrorI {
	c := n.Ctrl
	b := c.Consensus
	b.Height = c.ChainHeight()
	b.RootHeight = c.RootChainHeight()
	vs, e := c.LoadCommittee(c.LoadRootChainId(b.Height), b.RootHeight)
	if e != nil {
		return e
	}
	b.ValidatorSet = vs
	cd, e := c.LoadCommitteeData()
	if e != nil {
		return e
	}
	b.CommitteeData = cd
	return nil
}

// probeByzantineProposer: the leader is Byzantine. It takes the honest proposal and rewrites
// the slash list and/or the attached evidence; whatever the replica accepts is checked with L1.
func (w *cworld) probeByzantineProposer(p *env.Proposal, h uint64) error {
	type variant struct {
		name string
		ds   []*lib.DoubleSigner
		ev   []int // evidence items attached
	}
	dsOf := func(ps ...pair) (out []*lib.DoubleSigner) {
		for _, q := range ps {
			found := false
			for _, d := range out {
				if string(d.Id) == string(pubOf(q.V)) {
					d.Heights = append(d.Heights, q.RH)
					found = true
				}
			}
			if !found {
				out = append(out, &lib.DoubleSigner{Id: pubOf(q.V), Heights: []uint64{q.RH}})
			}
		}
		return
	}
	var vars []variant
	for _, base := range [][]int{{}, {eA}, {eB}, {eC}, {eB, eF}, {eX}, {eY}, {eG}} {
		usable := true
		var sup []pair
		for _, i := range base {
			if evItems[i].rh > h {
				usable = false
			}
			for _, v := range evItems[i].truth() {
				sup = append(sup, pair{v, evItems[i].rh})
			}
		}
		if !usable {
			continue
		}
		tag := listName(indexOfList(base))
		// the supported list itself (accepted iff fresh and unexpired), and over-claims
		vars = append(vars, variant{"supported" + tag, dsOf(sup...), base})
		vars = append(vars, variant{"plus-honest-V3" + tag, dsOf(append(append([]pair{}, sup...), pair{3, h - 1})...), base})
		if len(sup) > 0 {
			vars = append(vars, variant{"plus-extra-height" + tag, dsOf(append(append([]pair{}, sup...), pair{sup[0].V, sup[0].RH + 1})...), base})
			vars = append(vars, variant{"entry-twice" + tag, append(dsOf(sup...), dsOf(sup[0])...), base})
			vars = append(vars, variant{"no-evidence-attached" + tag, dsOf(sup...), nil})
			vars = append(vars, variant{"height-twice" + tag, dsOf(sup[0], sup[0]), base})
		}
		for q, at := range w.carried {
			_ = at
			vars = append(vars, variant{"plus-carried-pair" + tag, dsOf(append(append([]pair{}, sup...), q)...), base})
			break
		}
	}
	for _, va := range vars {
		res := proto(p.Results)
		res.SlashRecipients = &lib.SlashRecipients{DoubleSigners: va.ds}
		var evs []*bft.DoubleSignEvidence
		for _, i := range va.ev {
			ev, err := w.build(w.R, evItems[i])
			if err != nil {
				return err
			}
			ev.VoteA.Block, ev.VoteA.Results, ev.VoteB.Block, ev.VoteB.Results = nil, nil, nil, nil
			evs = append(evs, ev)
		}
		q := &env.Proposal{RCBuildHeight: p.RCBuildHeight, BlockBytes: p.BlockBytes, Block: p.Block, Results: res, Evidence: &bft.ByzantineEvidence{DSE: bft.NewDSE(evs)}}
		w.probes++
		if _, er := w.R.ValidateProposal(q, 0, false); er == nil {
			w.accepted++
			w.checkList("byzantine-proposer:"+strings.SplitN(va.name, "[", 2)[0], h, va.ds)
		}
	}
	return nil
}

// probeFSMAtMostOnce: the state machine's own guard. A slash list that names one (validator, root height)
// pair twice (one entry with the height twice, two entries with the same id) or names a pair that is
// already indexed is handed to HandleDoubleSigners on a COPY of the proposer's state machine. Whether the
// call fails or not, the validator may lose at most one double-sign slash for a fresh pair and nothing
// for an indexed one. (Replica-side validation refuses such lists before they are certified; this is the
// second line the property's anchors name: IsValidDoubleSigner + IndexDoubleSigner.)
func (w *cworld) probeFSMAtMostOnce(h uint64) error {
	sm := w.P.FSM()
	params, e := sm.GetParamsVal()
	if e != nil {
		return e
	}
	stakeOf := func(m *fsm.StateMachine, v int) uint64 {
		val, err := m.GetValidator(env.Addr(env.BLS(v)))
		if err != nil || val == nil {
			return 0
		}
		return val.StakedAmount
	}
	var fresh, indexed *pair
	for q := range w.truth {
		q := q
		if q.RH > h || stakeOf(sm, q.V) == 0 {
			continue
		}
		if _, ok := w.carried[q]; ok {
			// the certificate of height c is applied by BeginBlock of c+1; the machine probed here has
			// committed blocks up to h-1, so the pair is in the index iff c+1 <= h-1
			if at := w.carried[q]; at+2 <= h && indexed == nil {
				indexed = &q
			}
			continue
		}
		if fresh == nil || q.RH > fresh.RH || (q.RH == fresh.RH && q.V < fresh.V) {
			fresh = &q
		}
	}
	type lst struct {
		name string
		ds   []*lib.DoubleSigner
		max  func(pre uint64) uint64
	}
	one := func(pre uint64) uint64 { return (pre*dsPercent + 99) / 100 }
	none := func(uint64) uint64 { return 0 }
	var lists []lst
	var who int
	if fresh != nil {
		who = fresh.V
		lists = append(lists,
			lst{"height-twice-in-one-entry", []*lib.DoubleSigner{{Id: pubOf(fresh.V), Heights: []uint64{fresh.RH, fresh.RH}}}, one},
			lst{"two-entries-same-pair", []*lib.DoubleSigner{{Id: pubOf(fresh.V), Heights: []uint64{fresh.RH}}, {Id: pubOf(fresh.V), Heights: []uint64{fresh.RH}}}, one})
	}
	if indexed != nil {
		lists = append(lists, lst{"already-indexed-pair", []*lib.DoubleSigner{{Id: pubOf(indexed.V), Heights: []uint64{indexed.RH}}}, none})
	}
	for _, l := range lists {
		v := who
		if l.name == "already-indexed-pair" {
			v = indexed.V
		}
		cp, e := sm.Copy()
		if e != nil {
			return e
		}
		pre := stakeOf(cp, v)
		err := cp.HandleDoubleSigners(env.ChainID, params, l.ds)
		post := stakeOf(cp, v)
		cp.Discard()
		w.fsmProbes++
		if pre > post && pre-post > l.max(pre) {
			w.viol("fsm-slashes-one-pair-more-than-once:"+l.name, fmt.Sprintf("height %d: HandleDoubleSigners with the list %s for V%d (error: %v) took %d of %d stake; one double-sign slash takes at most %d", h, l.name, v, err, pre-post, pre, l.max(pre)))
		}
	}
	return nil
}

func indexOfList(l []int) int {
	for i, x := range evLists {
		if fmt.Sprint(x) == fmt.Sprint(l) {
			return i
		}
	}
	evLists = append(evLists, l)
	return len(evLists) - 1
}

func proto(r *lib.CertificateResult) *lib.CertificateResult {
	bz, _ := lib.Marshal(r)
	out := new(lib.CertificateResult)
	_ = lib.Unmarshal(bz, out)
	return out
}

// ---------------------------------------------------------------------------------------
// job / result for the worker processes

type cjob struct {
	Start int   `json:"start"` // empty blocks committed before the path starts
	Path  []int `json:"path"`
	Probe bool  `json:"probe"`
	// MinStake is the governance minimum stake of the world (0, or just below the genesis stakes)
	MinStake uint64 `json:"min_stake,omitempty"`
}

type cresult struct {
	mc.ExecResult
	Probes     int    `json:"probes"`
	Accepted   int    `json:"accepted"`
	Slashes    int    `json:"slashes"`
	HarnessErr string `json:"herr,omitempty"`
}

func execChain(j cjob) (res cresult) {
	if pf := os.Getenv("VERIF_CPUPROFILE"); pf != "" {
		f, _ := os.Create(pf)
		_ = pprof.StartCPUProfile(f)
		defer pprof.StopCPUProfile()
	}
	defer func() {
		if p := recover(); p != nil {
			res.HarnessErr = fmt.Sprintf("panic: %v\n%s", p, debug.Stack())
		}
	}()
	w, err := newCWorld(j.Start, j.MinStake)
	if err == nil {
		w.minStake = j.MinStake
	}
	if err != nil {
		res.HarnessErr = err.Error()
		return
	}
	defer w.close()
	for i := 0; i < j.Start; i++ {
		if ok, fatal := w.step(0, false); fatal != nil || !ok {
			res.HarnessErr = fmt.Sprintf("pre-roll block %d: ok=%v %v %v", i, ok, fatal, w.viols)
			return
		}
	}
	alive := true
	for i, op := range j.Path {
		w.path = j.Path[:i+1]
		ok, fatal := w.step(op, j.Probe && i == len(j.Path)-1)
		if fatal != nil {
			res.HarnessErr = fmt.Sprintf("block %d (%s): %v", i, listName(op), fatal)
			return
		}
		if !ok {
			alive = false
			break
		}
	}
	if alive && len(j.Path) > 0 {
		// flush: one empty block so that the last certificate's slash list is applied and checked (not part of the state)
		w.path = j.Path
		hBefore := len(w.viols)
		if ok, fatal := w.step(0, false); fatal != nil {
			res.HarnessErr = "flush block: " + fatal.Error()
			return
		} else if !ok && len(w.viols) == hBefore {
			res.HarnessErr = "flush block failed without a reason"
			return
		}
	}
	res.Viols, res.Probes, res.Accepted, res.Slashes = w.viols, w.probes, w.accepted, len(w.carried)
	if !alive {
		return
	}
	// state key before the flush block would be ideal; the flush is deterministic (empty block),
	// so the state after it identifies the state before it equally well
	k, e := env.StateKey(w.P.FSM())
	if e != nil {
		res.HarnessErr = e.Error()
		return
	}
	var cs []string
	for p, at := range w.carried {
		cs = append(cs, fmt.Sprintf("%v@%d", p, at))
	}
	sort.Strings(cs)
	res.Key, res.OK = fmt.Sprintf("%d|%s|%s", w.P.Height(), k, strings.Join(cs, ",")), true
	return
}
