// C06 — replay protection: a signed transaction takes effect at most once.
//
// For every base (one successful transaction of each fund-moving type, several key kinds,
// Ethereum wrappers and an account multisig) the transaction is really committed in block k
// (env.Chain.Step). A variant generator then enumerates a fixed alphabet of wire-level
// transformations of the committed byte string and all their ordered compositions of depth 2
// (txlab/variants.go — an own protobuf walker, never canopy's codec). Each variant is
// submitted alone in block k+1 and again in block k+2 (after a real empty block), and also
// right behind the original inside block k itself. Oracle: the complete raw state after the
// block equals the state after an empty block (resp. after the block holding only the
// original): the variant did not execute.
//
// Further parts: byte-identical resubmission, creation-height window (upper edge in quick,
// both edges on a 4.3k-block chain in thorough), another network / another chain (second
// chain with other ids), nonce floor of RLP.V2.
package main

import (
	"bytes"
	"encoding/hex"
	"flag"
	"fmt"
	"os"
	"sort"
	"strings"
	"time"

	"github.com/canopy-network/canopy/fsm"
	"github.com/canopy-network/canopy/lib"
	"github.com/canopy-network/canopy/lib/crypto"

	"verifharness/env"
	"verifharness/mc"
	"verifharness/txlab"
)

type baseSpec struct {
	Msg, Kind, Target string
	Memo              string `json:",omitempty"` // memo of the (natively signed) base transaction
}

var bases = []baseSpec{
	{fsm.MessageSendName, txlab.KBLS, "fresh", ""},
	{fsm.MessageSendName, txlab.KED, "fresh", ""},
	{fsm.MessageSendName, txlab.KSECP, "fresh", ""},
	{fsm.MessageSendName, txlab.KETH, "fresh", ""},
	{fsm.MessageSendName, txlab.KMS2, "fresh", ""},
	{fsm.MessageSendName, txlab.KRLP, "fresh", ""},
	{fsm.MessageSendName, txlab.KRLPV2, "fresh", ""},
	{fsm.MessageSubsidyName, txlab.KED, "fresh", ""},
	{fsm.MessageSubsidyName, txlab.KRLPV2, "fresh", ""},
	{fsm.MessageCreateOrderName, txlab.KSECP, "fresh", ""},
	{fsm.MessageCreateOrderName, txlab.KRLP, "fresh", ""},
	{fsm.MessageEditOrderName, txlab.KETH, "order-open", ""},
	{fsm.MessageDeleteOrderName, txlab.KBLS, "order-open", ""},
	{fsm.MessageStakeName, txlab.KBLS, "fresh", ""},
	{fsm.MessageEditStakeName, txlab.KBLS, "custodial", ""},
	{fsm.MessageDexLimitOrderName, txlab.KBLS, "fresh", ""},
	{fsm.MessageDexLiquidityDepositName, txlab.KED, "fresh", ""},
	{fsm.MessageDAOTransferName, txlab.KBLS, "fresh", ""},
	{fsm.MessageCertificateResultsName, txlab.KBLS, "fresh", ""},
	// a natively signed transaction may carry the memo that marks Ethereum wrappers: index aliases and
	// signature checks branch on the memo, not on the key type
	{fsm.MessageSendName, txlab.KMS2, "fresh", "RLP"},
	{fsm.MessageSendName, txlab.KBLS, "fresh", "RLP"},
}

type Job struct {
	Part     string   `json:"part"` // replay | window | cross | nonce | longwindow
	Base     baseSpec `json:"base"`
	Thorough bool     `json:"thorough"`
	FullD2   bool     `json:"full_d2"`
	Only     string   `json:"only,omitempty"` // replay of one variant: hex of the variant bytes
	Deadline int64    `json:"deadline,omitempty"`
	// NoAcctIndex: the node runs with the store option indexByAccount=false (replay protection must not depend on
	// an optional index)
	NoAcctIndex bool `json:"no_acct_index,omitempty"`
	// StaleView: between the inclusion of the base and the replay attempts, a view of the chain from BEFORE the inclusion
	// (the state machine's TimeMachine, what a not-yet-refreshed mempool copy or an RPC query at an old height is) checks
	// the base and every variant, as re-gossiped transactions are checked. Reading an old view must not change what the
	// live chain accepts.
	StaleView bool `json:"stale_view,omitempty"`
}

func (j Job) cfg() []func(*lib.Config) {
	if !j.NoAcctIndex {
		return nil
	}
	return []func(*lib.Config){func(c *lib.Config) { c.StoreConfig.IndexByAccount = false }}
}

var deadlineMs int64

func late() bool { return deadlineMs > 0 && time.Now().UnixMilli() > deadlineMs }

func jobDeadline(r *mc.Run, quick, thorough time.Duration) int64 {
	b := quick
	if !r.Quick() {
		b = thorough
	}
	if f := flag.Lookup("budget"); f != nil {
		if d, err := time.ParseDuration(f.Value.String()); err == nil && d > 0 {
			b = d
		}
	}
	// workers stop a little before the parent's soft deadline so that in-flight probes finish inside it
	return time.Now().Add(b * 85 / 100).UnixMilli()
}

// Hit is a variant (or another probe) that EXECUTED although it must not.
type Hit struct {
	Kind     string   `json:"kind"` // replay | same-block | identical | window | cross | nonce
	Class    string   `json:"class"`
	Classes  []string `json:"classes,omitempty"`
	Depth    int      `json:"depth"`
	Where    string   `json:"where"`
	Desc     string   `json:"desc"`
	Base     string   `json:"base"`
	BaseHex  string   `json:"base_hex"`
	VarHex   string   `json:"variant_hex"`
	Diff     []string `json:"diff"`
	Commit   string   `json:"commit,omitempty"`
	SameCont bool     `json:"decodes_to_same_content"`
	NoAcct   bool     `json:"no_account_index,omitempty"`
	Stale    bool     `json:"stale_view,omitempty"`
}

type ClassStat struct {
	Submitted int            `json:"submitted"`
	Executed  int            `json:"executed"`
	Rejected  map[string]int `json:"rejected"`
}

type Result struct {
	Evaluations int                   `json:"evaluations"`
	Variants    int                   `json:"variants"`
	D1, D2      int                   `json:"-"`
	Depth1      int                   `json:"depth1"`
	Depth2      int                   `json:"depth2"`
	PerClass    map[string]*ClassStat `json:"per_class"`
	Hits        []Hit                 `json:"hits,omitempty"`
	Outcomes    map[string]int        `json:"outcomes"`
	Parts       map[string]int        `json:"parts"`
	Notes       []string              `json:"notes,omitempty"`
	Samples     []any                 `json:"samples,omitempty"`
	Err         string                `json:"err,omitempty"`
	Partial     bool                  `json:"partial,omitempty"`
	CPUms       int64                 `json:"cpu_ms"`
}

func (b baseSpec) String() string { return b.Msg + "/" + b.Kind }

func (r *Result) stat(class string) *ClassStat {
	s := r.PerClass[class]
	if s == nil {
		s = &ClassStat{Rejected: map[string]int{}}
		r.PerClass[class] = s
	}
	return s
}

func newResult() Result {
	return Result{PerClass: map[string]*ClassStat{}, Outcomes: map[string]int{}, Parts: map[string]int{}}
}

// sameContent: does canopy's decoder map the variant to the same transaction content as the
// base (informational flag of a hit; never an oracle).
func sameContent(base, variant []byte) bool {
	a, b := new(lib.Transaction), new(lib.Transaction)
	if lib.Unmarshal(base, a) != nil || lib.Unmarshal(variant, b) != nil {
		return false
	}
	sa, e1 := a.GetSignBytes()
	sb, e2 := b.GetSignBytes()
	return e1 == nil && e2 == nil && bytes.Equal(sa, sb)
}

func buildBase(l *txlab.Lab, b baseSpec, seq uint64) *txlab.Built {
	txlab.MemoOverride = b.Memo
	defer func() { txlab.MemoOverride = "" }()
	return txlab.Build(l, txlab.CaseID{Msg: b.Msg, Kind: b.Kind, Target: b.Target, Role: "owner", Mode: txlab.ModeHonest}, seq)
}

// probe submits txs alone in the next block on a copy and reports whether the state differs
// from `ref`.
func probe(l *txlab.Lab, txs [][]byte, ref []env.KV) (executed bool, diff []txlab.Change, errText string) {
	pr := l.ProbeBlock(txs, false)
	if pr.Err != "" {
		return false, nil, "block refused: " + pr.Err
	}
	if len(pr.Failed) > 0 {
		errText = pr.Failed[len(pr.Failed)-1]
	}
	diff = txlab.Diff(ref, pr.State)
	return len(diff) > 0, diff, errText
}

func runReplay(j Job) (res Result) {
	res = newResult()
	w := txlab.NewWorld()
	l, err := txlab.NewLab(w, 2, nil, j.cfg()...)
	if err != nil {
		res.Err = err.Error()
		return
	}
	defer l.Close()
	b := buildBase(l, j.Base, 1)
	if b.NA != "" {
		res.Err = "base not buildable: " + b.NA
		return
	}
	baseHex := hex.EncodeToString(b.Raw)
	tree, err2 := txlab.Parse(b.Raw, txlab.TxSchema, "")
	if err2 != nil {
		res.Err = "walker cannot parse the base: " + err2.Error()
		return
	}
	opts := txlab.XformOpts{Thorough: j.Thorough, Kind: j.Base.Kind}
	if j.Base.Kind == txlab.KMS2 {
		// the same content signed by all three members (what the third member can compute from the
		// public aggregate and its own signature)
		tx := new(lib.Transaction)
		if e := lib.Unmarshal(b.Raw, tx); e == nil {
			sb, _ := tx.GetSignBytes()
			// ... and by the other member pairs: every one of these byte strings carries the same signed content
			for _, pos := range [][]int{{0, 1, 2}, {0, 2}, {1, 2}} {
				pub, sig := b.Actual.SignAs(sb, pos)
				opts.ExtraSig = append(opts.ExtraSig, [2][]byte{pub, sig})
			}
		}
	}
	xs := txlab.Xforms(tree, opts)
	// depth 2 composes over the quick-size alphabet (the thorough alphabet only adds more field
	// permutations): one representative per class, or — FullD2 — every ordered pair
	optsQ := opts
	optsQ.Thorough = false
	xq := txlab.Xforms(tree, optsQ)
	second := txlab.Representatives(xq)
	first := second
	if j.FullD2 {
		first, second = xq, xq
	}
	d1, _, gerr := txlab.Generate(b.Raw, xs, nil)
	if gerr != nil {
		res.Err = gerr.Error()
		return
	}
	_, d2, _ := txlab.Generate(b.Raw, first, second)
	// drop depth-2 results that are byte-equal to a depth-1 result
	seen := map[string]bool{}
	for _, v := range d1 {
		seen[string(v.Raw)] = true
	}
	var d2u []txlab.Variant
	for _, v := range d2 {
		if !seen[string(v.Raw)] {
			seen[string(v.Raw)] = true
			d2u = append(d2u, v)
		}
	}
	d2 = d2u
	if j.Only != "" {
		raw, _ := hex.DecodeString(j.Only)
		d1, d2 = []txlab.Variant{{Classes: []string{"replayed-artefact"}, Desc: "from replay artefact", Raw: raw}}, nil
	}
	res.Depth1, res.Depth2, res.Variants = len(d1), len(d2), len(d1)+len(d2)

	record := func(kind string, v txlab.Variant, depth int, where string, executed bool, diff []txlab.Change, errText string) {
		res.Evaluations++
		class := v.ClassKey()
		st := res.stat(fmt.Sprintf("%s|d%d|%s", kind, depth, class))
		st.Submitted++
		res.Outcomes[fmt.Sprintf("%s|executed=%v|%s", kind, executed, txlab.ErrClass(errText))]++
		if !executed {
			st.Rejected[txlab.ErrClass(errText)]++
			return
		}
		st.Executed++
		if st.Executed <= 2 {
			res.Hits = append(res.Hits, Hit{NoAcct: j.NoAcctIndex, Stale: j.StaleView, Kind: kind, Class: class, Classes: v.Classes, Depth: depth, Where: where, Desc: v.Desc, Base: j.Base.String(), BaseHex: baseHex,
				VarHex: hex.EncodeToString(v.Raw), Diff: txlab.DescribeDiff(diff, w), SameCont: sameContent(b.Raw, v.Raw)})
		}
	}

	// controls must be rejected even before the original exists on chain
	emptyK := l.ProbeBlock(nil, false)
	if emptyK.Err != "" {
		res.Err = "empty probe: " + emptyK.Err
		return
	}
	for _, v := range d1 {
		if v.Control {
			ex, _, e := probe(l, [][]byte{v.Raw}, emptyK.State)
			res.Evaluations++
			res.Outcomes[fmt.Sprintf("control-before-inclusion|executed=%v|%s", ex, txlab.ErrClass(e))]++
			if ex {
				res.Notes = append(res.Notes, fmt.Sprintf("control %q of %s executes as a first submission (it is not a control)", v.Desc, j.Base))
			}
		}
	}
	// same block: [original, variant] must equal [original]
	alone := l.ProbeBlock([][]byte{b.Raw}, false)
	if alone.Err != "" || alone.Included != 1 {
		res.Err = fmt.Sprintf("base transaction does not execute: err=%q failed=%v", alone.Err, alone.Failed)
		return
	}
	for _, v := range d1 {
		if late() {
			res.Partial = true
			break
		}
		ex, diff, e := probe(l, [][]byte{b.Raw, v.Raw}, alone.State)
		record("same-block", v, 1, "block k behind the original", ex, diff, e)
	}
	{ // three forms of the same signed content in ONE block: [original, v, v'] must equal [original]
		// (a rejected second form must not re-open the door for a third one); one representative per class
		var reps []txlab.Variant
		seenClass := map[string]bool{}
		// forms that are valid signatures of the same content come first (they are the ones a de-duplication
		// by content has to stop), then one representative of the other classes
		ordered := make([]txlab.Variant, 0, len(d1))
		for _, pref := range []string{"multisig-add-cosigner", "signature-form", "pubkey-encoding"} {
			for _, v := range d1 {
				if strings.Contains(v.ClassKey(), pref) {
					ordered = append(ordered, v)
				}
			}
		}
		for _, v := range d1 {
			if !strings.Contains(v.ClassKey(), "multisig-add-cosigner") && !strings.Contains(v.ClassKey(), "signature-form") && !strings.Contains(v.ClassKey(), "pubkey-encoding") {
				ordered = append(ordered, v)
			}
		}
		for _, v := range ordered {
			if v.Control || bytes.Equal(v.Raw, b.Raw) {
				continue
			}
			if seenClass[v.ClassKey()] && !strings.Contains(v.ClassKey(), "multisig-add-cosigner") {
				continue
			}
			seenClass[v.ClassKey()] = true
			reps = append(reps, v)
			if len(reps) == 8 {
				break
			}
		}
		for i := 0; i < len(reps) && !late(); i++ {
			for k := i + 1; k < len(reps); k++ {
				ex, diff, e := probe(l, [][]byte{b.Raw, reps[i].Raw, reps[k].Raw}, alone.State)
				v := txlab.Variant{Classes: append(append([]string{}, reps[i].Classes...), reps[k].Classes...), Desc: "three forms in one block: original, " + reps[i].Desc + ", " + reps[k].Desc, Raw: reps[k].Raw}
				record("same-block", v, 2, "block k behind the original and another form", ex, diff, e)
			}
		}
	}
	{ // byte-identical twice in one block: the block is refused or equals [original]
		ex, diff, e := probe(l, [][]byte{b.Raw, b.Raw}, alone.State)
		record("same-block", txlab.Variant{Classes: []string{"identical-bytes"}, Desc: "the identical bytes twice in one block", Raw: b.Raw}, 0, "block k", ex, diff, e)
	}
	// commit the original in block k
	cm, e := l.C.Step(env.BlockSpec{Proposer: 0, Txs: [][]byte{b.Raw}})
	if e != nil || len(cm.BlockResult.Transactions) != 1 {
		res.Err = fmt.Sprintf("cannot commit the base: %v", e)
		return
	}
	res.Parts["base-committed"]++
	if j.StaleView {
		for back := uint64(1); back <= 2 && cm.Height > back; back++ {
			tm, e := l.C.FSM.TimeMachine(cm.Height - back)
			if e != nil || tm == nil {
				res.Notes = append(res.Notes, fmt.Sprintf("no view of height %d: %v", cm.Height-back, e))
				continue
			}
			func() {
				defer func() { _ = recover() }()
				_, _ = tm.CheckTx(b.Raw, crypto.HashString(b.Raw), nil)
				for _, v := range d1 {
					_, _ = tm.CheckTx(v.Raw, crypto.HashString(v.Raw), nil)
					res.Parts["stale-view-checks"]++
				}
			}()
			tm.Discard()
		}
	}
	for step := 1; step <= 2; step++ {
		where := fmt.Sprintf("block k+%d", step)
		empty := l.ProbeBlock(nil, false)
		if empty.Err != "" {
			res.Err = "empty probe: " + empty.Err
			return
		}
		ex, diff, et := probe(l, [][]byte{b.Raw}, empty.State)
		record("replay", txlab.Variant{Classes: []string{"identical-bytes"}, Desc: "the identical bytes", Raw: b.Raw}, 0, where, ex, diff, et)
		for _, v := range d1 {
			if late() {
				res.Partial = true
				break
			}
			ex, diff, et := probe(l, [][]byte{v.Raw}, empty.State)
			record("replay", v, 1, where, ex, diff, et)
		}
		if step == 1 || (j.Thorough && !j.FullD2) {
			for _, v := range d2 {
				if late() {
					res.Partial = true
					break
				}
				ex, diff, et := probe(l, [][]byte{v.Raw}, empty.State)
				record("replay", v, 2, where, ex, diff, et)
			}
		}
		if step == 1 {
			if _, e := l.C.Step(env.BlockSpec{Proposer: 0}); e != nil {
				res.Err = "empty block k+1: " + e.Error()
				return
			}
		}
	}
	// one executing variant is committed for real with replica semantics (a failing transaction fails the block)
	for i := range res.Hits {
		h := &res.Hits[i]
		if h.Kind != "replay" {
			continue
		}
		raw, _ := hex.DecodeString(h.VarHex)
		cm, e := l.C.Step(env.BlockSpec{Proposer: 0, Txs: [][]byte{raw}, Strict: true})
		if e != nil {
			h.Commit = "strict commit refused: " + txlab.ShortErr(e.Error())
		} else {
			h.Commit = fmt.Sprintf("committed at height %d with replica semantics, %d transaction(s) in the block", cm.Height, len(cm.BlockResult.Transactions))
		}
		res.Parts["hit-committed-for-real"]++
		break
	}
	if len(res.Samples) == 0 && len(d1) > 0 {
		v := d1[len(d1)/3]
		res.Samples = append(res.Samples, map[string]any{"base": j.Base.String(), "base_hex": baseHex, "variant": v.Desc, "class": v.ClassKey(), "variant_hex": hex.EncodeToString(v.Raw)})
	}
	return
}

// runWindow: creation-height window, upper edge (and trivial lower edge) at low heights.
func runWindow(j Job) (res Result) {
	res = newResult()
	w := txlab.NewWorld()
	l, err := txlab.NewLab(w, 2, nil)
	if err != nil {
		res.Err = err.Error()
		return
	}
	defer l.Close()
	h := l.C.Height()
	empty := l.ProbeBlock(nil, false)
	a := w.P[txlab.KBLS][txlab.PA]
	for _, c := range []struct {
		created uint64
		inside  bool
	}{{1, true}, {h, true}, {h + fsm.BlockAcceptanceRange, true}, {h + fsm.BlockAcceptanceRange + 1, false}, {h + 2*fsm.BlockAcceptanceRange, false}, {1 << 62, false}} {
		tx := txlab.Unsigned(&fsm.MessageSend{FromAddress: a.Addr, ToAddress: w.Recipient, Amount: 1000}, txlab.TxOpts{Created: c.created, Time: txlab.BaseTime + c.created%1000, Fee: txlab.FeeDefault, Net: w.NetworkID, Chain: w.ChainID})
		raw := txlab.SignNative(tx, a, nil)
		ex, diff, et := probe(l, [][]byte{raw}, empty.State)
		res.Evaluations++
		res.Outcomes[fmt.Sprintf("window|inside=%v|executed=%v|%s", c.inside, ex, txlab.ErrClass(et))]++
		if ex && !c.inside {
			res.Hits = append(res.Hits, Hit{Kind: "window", Class: "upper-edge", Where: fmt.Sprintf("height %d", h), Desc: fmt.Sprintf("created height %d executes at height %d (window +%d)", c.created, h, fsm.BlockAcceptanceRange),
				VarHex: hex.EncodeToString(raw), Diff: txlab.DescribeDiff(diff, w)})
		}
		if !ex && c.inside {
			res.Notes = append(res.Notes, fmt.Sprintf("created height %d inside the window was rejected at height %d: %s", c.created, h, txlab.ShortErr(et)))
		}
	}
	return
}

// runLongWindow (thorough): a transaction created at height 1 and committed at height 3 is
// resubmitted (identical bytes and the first replaying variant classes) at the lower edge of the
// window: heights 4321 (still inside: must be stopped by the hash filter) and 4322 (outside).
func runLongWindow(j Job) (res Result) {
	res = newResult()
	w := txlab.NewWorld()
	l, err := txlab.NewLab(w, 2, nil)
	if err != nil {
		res.Err = err.Error()
		return
	}
	defer l.Close()
	a := w.P[txlab.KBLS][txlab.PA]
	mk := func(created, salt uint64) []byte {
		tx := txlab.Unsigned(&fsm.MessageSend{FromAddress: a.Addr, ToAddress: w.Recipient, Amount: 1000}, txlab.TxOpts{Created: created, Time: txlab.BaseTime + salt, Fee: txlab.FeeDefault, Net: w.NetworkID, Chain: w.ChainID})
		return txlab.SignNative(tx, a, nil)
	}
	base := mk(1, 1)
	if _, e := l.C.Step(env.BlockSpec{Proposer: 0, Txs: [][]byte{base}}); e != nil {
		res.Err = e.Error()
		return
	}
	tree, _ := txlab.Parse(base, txlab.TxSchema, "")
	d1, _, _ := txlab.Generate(base, txlab.Representatives(txlab.Xforms(tree, txlab.XformOpts{Kind: txlab.KBLS})), nil)
	for l.C.Height() < 1+fsm.BlockAcceptanceRange {
		if late() {
			res.Partial = true
			return
		}
		if _, e := l.C.Step(env.BlockSpec{Proposer: 0}); e != nil {
			res.Err = fmt.Sprintf("height %d: %v", l.C.Height(), e)
			return
		}
	}
	for step := 0; step < 2; step++ {
		h := l.C.Height() // 4321, then 4322
		empty := l.ProbeBlock(nil, false)
		subs := append([]txlab.Variant{{Classes: []string{"identical-bytes"}, Desc: "identical bytes", Raw: base}}, d1...)
		// fresh transactions exactly at / below the lower edge
		for _, cr := range []uint64{h - fsm.BlockAcceptanceRange, h - fsm.BlockAcceptanceRange - 1} {
			if cr >= 1 {
				subs = append(subs, txlab.Variant{Classes: []string{fmt.Sprintf("fresh-created-at-h-minus-%d", h-cr)}, Desc: "fresh transaction", Raw: mk(cr, 100+cr)})
			}
		}
		for _, v := range subs {
			ex, diff, et := probe(l, [][]byte{v.Raw}, empty.State)
			res.Evaluations++
			res.Outcomes[fmt.Sprintf("long-window|h=%d|%s|executed=%v|%s", h, v.ClassKey(), ex, txlab.ErrClass(et))]++
			fresh := strings.HasPrefix(v.Classes[0], "fresh-")
			insideFresh := fresh && strings.HasSuffix(v.Classes[0], fmt.Sprintf("-%d", fsm.BlockAcceptanceRange))
			baseOutside := h-fsm.BlockAcceptanceRange > 1 // the original was created at height 1
			switch {
			case !ex || insideFresh:
			case fresh || baseOutside:
				res.Hits = append(res.Hits, Hit{Kind: "window", Class: "lower-edge:" + v.ClassKey(), Where: fmt.Sprintf("height %d", h), Desc: v.Desc, BaseHex: hex.EncodeToString(base), VarHex: hex.EncodeToString(v.Raw), Diff: txlab.DescribeDiff(diff, w)})
			default:
				// still inside the window, thousands of blocks after inclusion: this is a replay
				res.Hits = append(res.Hits, Hit{Kind: "replay", Class: v.ClassKey(), Classes: v.Classes, Depth: 1, Where: fmt.Sprintf("height %d, the last height at which created-height 1 is inside the window", h), Desc: v.Desc, Base: "send/bls (created at 1, included at 3)",
					BaseHex: hex.EncodeToString(base), VarHex: hex.EncodeToString(v.Raw), Diff: txlab.DescribeDiff(diff, w), SameCont: sameContent(base, v.Raw)})
				res.stat("replay|d1|"+v.ClassKey()).Executed++
			}
		}
		if step == 0 {
			if _, e := l.C.Step(env.BlockSpec{Proposer: 0}); e != nil {
				res.Err = e.Error()
				return
			}
		}
	}
	return
}

// rlpDomains: an Ethereum transaction is signed for a chain id whose bits 30..31 name the wrapper format it may travel
// in (0 = memo "RLP", 1 = memo "RLP.V2"); the two unassigned values belong to no format. A payload signed for domain
// 2 or 3 must not execute under either memo (otherwise ONE signature is a valid transaction in two formats, with
// different fee / nonce semantics); the assigned domains are the control.
func rlpDomains(res *Result) {
	w := txlab.NewWorld()
	l, err := txlab.NewLab(w, 2, nil)
	if err != nil {
		res.Err = err.Error()
		return
	}
	defer l.Close()
	a := w.P[txlab.KETH][txlab.PA]
	empty := l.ProbeBlock(nil, false)
	for domain := uint64(0); domain < 4; domain++ {
		for _, v2 := range []bool{false, true} {
			evm := w.NetworkID<<32 | domain<<30 | w.ChainID
			raw, _, e := txlab.WrapRLP(&fsm.MessageSend{FromAddress: a.Addr, ToAddress: w.Recipient, Amount: 1000}, a, v2,
				txlab.TxOpts{Created: l.C.Height(), Fee: 20001, Net: w.NetworkID, Chain: w.ChainID, Nonce: 1, EVMChain: evm})
			if e != nil {
				res.Notes = append(res.Notes, "rlp-domain: "+e.Error())
				continue
			}
			ex, diff, et := probe(l, [][]byte{raw}, empty.State)
			res.Evaluations++
			res.Outcomes[fmt.Sprintf("rlp-domain|domain=%d|v2-wrapper=%v|executed=%v|%s", domain, v2, ex, txlab.ErrClass(et))]++
			assigned := (domain == 0 && !v2) || (domain == 1 && v2)
			if ex && !assigned {
				res.Hits = append(res.Hits, Hit{Kind: "cross", Class: fmt.Sprintf("rlp-domain-%d", domain), Where: fmt.Sprintf("wrapper v2=%v", v2),
					Desc: fmt.Sprintf("an Ethereum transaction signed for chain id %#x (RLP domain %d) executes in the wrapper format v2=%v", evm, domain, v2), Base: "send/rlp-domain",
					BaseHex: hex.EncodeToString(raw), VarHex: hex.EncodeToString(raw), Diff: txlab.DescribeDiff(diff, w)})
			}
			if !ex && assigned {
				res.Notes = append(res.Notes, fmt.Sprintf("rlp-domain control: domain %d in its own wrapper (v2=%v) does not execute: %s", domain, v2, txlab.ShortErr(et)))
			}
		}
	}
}

// runCross: the transaction signed for (network 1, chain 1) and committed there is submitted
// on a chain with another network id and on a chain with another chain id (same genesis
// accounts); a transaction signed for that chain is the control.
func runCross(j Job) (res Result) {
	res = newResult()
	if j.Base.Msg == fsm.MessageSendName && j.Base.Kind == txlab.KBLS && j.Base.Memo == "" {
		rlpDomains(&res) // once per run (the first cross job)
		if res.Err != "" {
			return
		}
	}
	home := txlab.NewWorld()
	var baseRaw []byte
	{
		l, err := txlab.NewLab(home, 2, nil)
		if err != nil {
			res.Err = err.Error()
			return
		}
		b := buildBase(l, j.Base, 1)
		if b.NA != "" {
			l.Close()
			res.Err = b.NA
			return
		}
		baseRaw = b.Raw
		if ex, _, et := probe(l, [][]byte{baseRaw}, l.ProbeBlock(nil, false).State); !ex {
			l.Close()
			res.Err = "base does not execute at home: " + txlab.ShortErr(et)
			return
		}
		l.Close()
	}
	for _, other := range []struct {
		name       string
		chain, net uint64
	}{{"other-network", 1, 2}, {"other-chain", 3, 1}, {"other-network-and-chain", 3, 2}} {
		w := txlab.NewWorld()
		w.ChainID, w.NetworkID = other.chain, other.net
		l, err := txlab.NewLab(w, 2, nil, func(c *lib.Config) { c.ChainId = other.chain; c.P2PConfig.NetworkID = other.net })
		if err != nil {
			res.Err = other.name + ": " + err.Error()
			return
		}
		empty := l.ProbeBlock(nil, false)
		ex, diff, et := probe(l, [][]byte{baseRaw}, empty.State)
		res.Evaluations++
		res.Outcomes[fmt.Sprintf("cross|%s|executed=%v|%s", other.name, ex, txlab.ErrClass(et))]++
		if ex {
			res.Hits = append(res.Hits, Hit{Kind: "cross", Class: other.name, Where: other.name, Desc: "transaction signed for (network 1, chain 1) executes on " + other.name, Base: j.Base.String(),
				BaseHex: hex.EncodeToString(baseRaw), VarHex: hex.EncodeToString(baseRaw), Diff: txlab.DescribeDiff(diff, w)})
		}
		// control: the same kind of transaction signed for this chain executes here
		nb := buildBase(l, j.Base, 2)
		if nb.NA == "" {
			ex, _, et := probe(l, [][]byte{nb.Raw}, empty.State)
			res.Evaluations++
			res.Outcomes[fmt.Sprintf("cross-control|%s|executed=%v|%s", other.name, ex, txlab.ErrClass(et))]++
			if !ex {
				res.Notes = append(res.Notes, fmt.Sprintf("cross control: a %s signed for %s does not execute there: %s", j.Base, other.name, txlab.ShortErr(et)))
			}
		}
		l.Close()
	}
	return
}

// runNonce: RLP.V2 account nonce floor.
func runNonce(j Job) (res Result) {
	res = newResult()
	w := txlab.NewWorld()
	l, err := txlab.NewLab(w, 2, nil)
	if err != nil {
		res.Err = err.Error()
		return
	}
	defer l.Close()
	a := w.P[txlab.KETH][txlab.PA]
	mk := func(nonce, fee uint64) []byte {
		raw, _, e := txlab.WrapRLP(&fsm.MessageSend{FromAddress: a.Addr, ToAddress: w.Recipient, Amount: 1000}, a, true,
			txlab.TxOpts{Created: 1, Fee: fee, Net: w.NetworkID, Chain: w.ChainID, Nonce: nonce})
		if e != nil {
			panic(e)
		}
		return raw
	}
	first := mk(5, 20001)
	if cm, e := l.C.Step(env.BlockSpec{Proposer: 0, Txs: [][]byte{first}}); e != nil || len(cm.BlockResult.Transactions) != 1 {
		res.Err = fmt.Sprintf("nonce-5 transaction not committed: %v", e)
		return
	}
	empty := l.ProbeBlock(nil, false)
	for _, c := range []struct {
		nonce uint64
		ok    bool
	}{{0, false}, {4, false}, {5, false}, {6, true}, {9, true}, {^uint64(0), false}} {
		raw := mk(c.nonce, 20100+c.nonce%50)
		ex, diff, et := probe(l, [][]byte{raw}, empty.State)
		res.Evaluations++
		res.Outcomes[fmt.Sprintf("nonce|below-floor=%v|executed=%v|%s", !c.ok, ex, txlab.ErrClass(et))]++
		if ex && !c.ok {
			res.Hits = append(res.Hits, Hit{Kind: "nonce", Class: "below-floor", Where: "after nonce 5 was used", Desc: fmt.Sprintf("RLP.V2 transaction with nonce %d executes although the account floor is 6", c.nonce),
				VarHex: hex.EncodeToString(raw), Diff: txlab.DescribeDiff(diff, w)})
		}
		if !ex && c.ok {
			res.Notes = append(res.Notes, fmt.Sprintf("nonce %d at/above the floor rejected: %s", c.nonce, txlab.ShortErr(et)))
		}
	}
	return
}

// runNonceHistory: the nonce floor of an account is part of its record and must survive everything that
// rewrites the record: receiving funds, paying for later transactions, a vesting tranche of the account
// running out. After each such event every nonce below the floor is probed again.
func runNonceHistory(j Job) (res Result) {
	res = newResult()
	w := txlab.NewWorld()
	a := w.P[txlab.KETH][txlab.PA]
	w.SetVesting(a.Addr, 1000, 1, 1, 6) // fully vested from height 6 on
	l, err := txlab.NewLab(w, 2, nil)
	if err != nil {
		res.Err = err.Error()
		return
	}
	defer l.Close()
	mk := func(nonce, fee uint64) []byte {
		raw, _, e := txlab.WrapRLP(&fsm.MessageSend{FromAddress: a.Addr, ToAddress: w.Recipient, Amount: 1000}, a, true,
			txlab.TxOpts{Created: 1, Fee: fee, Net: w.NetworkID, Chain: w.ChainID, Nonce: nonce})
		if e != nil {
			panic(e)
		}
		return raw
	}
	giver := w.P[txlab.KBLS][txlab.PA]
	give := func(seq uint64) []byte {
		tx := txlab.Unsigned(&fsm.MessageSend{FromAddress: giver.Addr, ToAddress: a.Addr, Amount: 50 + seq}, txlab.TxOpts{Created: l.C.Height(), Time: txlab.BaseTime + 900 + seq, Fee: txlab.FeeDefault, Net: w.NetworkID, Chain: w.ChainID})
		return txlab.SignNative(tx, giver, nil)
	}
	floor := uint64(0)
	probeBelow := func(where string) {
		empty := l.ProbeBlock(nil, false)
		for _, n := range []uint64{0, 3, 5, 7} {
			if n >= floor {
				continue
			}
			raw := mk(n, 20100+n)
			ex, diff, et := probe(l, [][]byte{raw}, empty.State)
			res.Evaluations++
			res.Outcomes[fmt.Sprintf("nonce-history|%s|executed=%v|%s", where, ex, txlab.ErrClass(et))]++
			if ex {
				res.Hits = append(res.Hits, Hit{Kind: "nonce", Class: "below-floor-after-account-rewrite", Where: where, Desc: fmt.Sprintf("RLP.V2 transaction with nonce %d executes although the account floor is %d", n, floor),
					VarHex: hex.EncodeToString(raw), Diff: txlab.DescribeDiff(diff, w)})
			}
		}
	}
	type ev struct {
		name string
		txs  func() [][]byte
		set  uint64 // floor after the event (0 = unchanged)
	}
	events := []ev{
		{"nonce 5 used (height 3)", func() [][]byte { return [][]byte{mk(5, 20001)} }, 6},
		{"account receives funds (height 4)", func() [][]byte { return [][]byte{give(1)} }, 0},
		{"nonce 7 used (height 5)", func() [][]byte { return [][]byte{mk(7, 20002)} }, 8},
		{"empty block (height 6, vesting tranche ends)", func() [][]byte { return nil }, 0},
		{"account receives funds after the tranche ended (height 7)", func() [][]byte { return [][]byte{give(2)} }, 0},
		{"account pays: nonce 9 used (height 8)", func() [][]byte { return [][]byte{mk(9, 20003)} }, 10},
	}
	for _, e := range events {
		txs := e.txs()
		cm, er := l.C.Step(env.BlockSpec{Proposer: 0, Txs: txs})
		if er != nil || len(cm.BlockResult.Transactions) != len(txs) {
			res.Err = fmt.Sprintf("nonce history event %q not committed: %v", e.name, er)
			return
		}
		if e.set != 0 {
			floor = e.set
		}
		probeBelow("after: " + e.name)
	}
	return
}

func runJob(j Job) (res Result) {
	start := time.Now()
	defer func() {
		if p := recover(); p != nil {
			res.Err = fmt.Sprintf("panic: %v", p)
		}
		res.CPUms = time.Since(start).Milliseconds()
	}()
	crypto.SignatureCache.Reset()
	deadlineMs = j.Deadline
	switch j.Part {
	case "replay":
		return runReplay(j)
	case "window":
		return runWindow(j)
	case "longwindow":
		return runLongWindow(j)
	case "cross":
		return runCross(j)
	case "nonce":
		return runNonce(j)
	case "nonce-history":
		return runNonceHistory(j)
	}
	res = newResult()
	res.Err = "unknown part " + j.Part
	return
}

func main() {
	if mc.IsWorker() {
		mc.ServeWorker(runJob)
	}
	if oj := os.Getenv("VERIF_ONEJOB"); oj != "" { // development aid: VERIF_ONEJOB=replay/send/bls
		p := strings.Split(oj, "/")
		j := Job{Part: p[0]}
		if len(p) >= 3 {
			for _, b := range bases {
				if b.Msg == p[1] && b.Kind == p[2] {
					j.Base = b
				}
			}
		}
		res := runJob(j)
		fmt.Printf("evals=%d d1=%d d2=%d ms=%d err=%s notes=%v\n", res.Evaluations, res.Depth1, res.Depth2, res.CPUms, res.Err, res.Notes)
		var ks []string
		for k := range res.PerClass {
			ks = append(ks, k)
		}
		sort.Strings(ks)
		for _, k := range ks {
			fmt.Printf("  %-100s sub=%d exec=%d rej=%v\n", k, res.PerClass[k].Submitted, res.PerClass[k].Executed, res.PerClass[k].Rejected)
		}
		for k, v := range res.Outcomes {
			fmt.Println("  outcome", k, v)
		}
		for _, h := range res.Hits {
			fmt.Printf("  HIT %s %s d%d %s: %s\n      base    %s\n      variant %s\n      diff %v\n      %s\n", h.Kind, h.Class, h.Depth, h.Where, h.Desc, h.BaseHex, h.VarHex, h.Diff, h.Commit)
		}
		return
	}
	r := mc.Start("C06", "exploration", 85*time.Second, 25*time.Minute)
	r.Assumptions = []string{
		"the original is committed through the full commit path (proposer + replica ApplyBlock, certificate, IndexBlock, Commit); variants are applied alone in the next block on a copy of the FSM with proposer semantics, one executing variant per base is additionally committed with replica semantics",
		"'did not execute' = the complete raw state after the block equals the state after an empty block at the same height",
		"the variant alphabet is fixed (txlab/variants.go); compositions are bounded at depth 2 (quick: all depth-1 transformations, depth 2 over one representative per class; thorough: all ordered pairs for the send bases)",
		"alternative public-key encodings are, by definition, the byte strings canopy's NewPublicKeyFromBytes maps to the same address, drawn from a finite candidate list",
		"one chain per worker process at a time",
	}
	if r.Replay != "" {
		doReplay(r)
		return
	}
	var jobs []Job
	for i, b := range bases {
		jobs = append(jobs, Job{Part: "replay", Base: b, Thorough: !r.Quick(), FullD2: !r.Quick() && i < 5})
	}
	dl := jobDeadline(r, 85*time.Second, 25*time.Minute)
	defer func() { _ = dl }()
	jobs = append(jobs, Job{Part: "window"}, Job{Part: "nonce"}, Job{Part: "nonce-history"})
	for _, b := range bases {
		// the same variant space on a node that does not index by account (quick: one base per signature scheme family)
		if !r.Quick() || (b.Msg == fsm.MessageSendName && b.Memo == "" && (b.Kind == txlab.KBLS || b.Kind == txlab.KMS2 || b.Kind == txlab.KRLP || b.Kind == txlab.KRLPV2)) {
			jobs = append(jobs, Job{Part: "replay", Base: b, Thorough: !r.Quick(), NoAcctIndex: true})
		}
	}
	for _, b := range bases {
		// the same variant space with a stale view checking the transactions between inclusion and replay (quick: sends)
		if !r.Quick() || (b.Msg == fsm.MessageSendName && b.Memo == "" && (b.Kind == txlab.KBLS || b.Kind == txlab.KMS2 || b.Kind == txlab.KRLP)) {
			jobs = append(jobs, Job{Part: "replay", Base: b, Thorough: !r.Quick(), StaleView: true})
		}
	}
	crossBases := bases[:1]
	if !r.Quick() {
		crossBases = bases
	}
	for _, b := range crossBases {
		jobs = append(jobs, Job{Part: "cross", Base: b})
	}
	if !r.Quick() {
		jobs = append([]Job{{Part: "longwindow"}}, jobs...)
	}
	for i := range jobs {
		jobs[i].Deadline = dl
	}
	results, crashed := mc.Map[Job, Result](mc.NewProcPool(0), jobs, r.Expired)

	tot := newResult()
	execD1 := map[string]bool{} // classes that execute on their own (depth <= 1)
	var hits []Hit
	perBase := map[string]any{}
	var cpu int64
	done, partial := 0, 0
	for i, res := range results {
		if crashed[i] {
			r.Violation("C06:worker-crash:"+jobs[i].Part, fmt.Sprintf("worker died twice on job %+v", jobs[i]), jobs[i])
			continue
		}
		if res == nil {
			continue
		}
		done++
		cpu += res.CPUms
		if res.Err != "" {
			r.Note("job %s %s: %s", jobs[i].Part, jobs[i].Base, res.Err)
			r.Exhaustive = false
		}
		if res.Partial {
			partial++
			r.Exhaustive = false
		}
		for _, n := range res.Notes {
			r.Note("%s %s: %s", jobs[i].Part, jobs[i].Base, n)
		}
		tot.Evaluations += res.Evaluations
		tot.Variants += res.Variants
		tot.Depth1 += res.Depth1
		tot.Depth2 += res.Depth2
		nExec := 0
		for k, st := range res.PerClass {
			t := tot.stat(k)
			t.Submitted += st.Submitted
			t.Executed += st.Executed
			nExec += st.Executed
			for e, n := range st.Rejected {
				t.Rejected[e] += n
			}
			p := strings.SplitN(k, "|", 3)
			if st.Executed > 0 && len(p) == 3 && p[1] != "d2" {
				execD1[p[2]] = true
			}
		}
		for k, v := range res.Outcomes {
			tot.Outcomes[k] += v
		}
		for k, v := range res.Parts {
			tot.Parts[k] += v
		}
		if jobs[i].Part == "replay" {
			perBase[jobs[i].Base.String()] = map[string]int{"depth1_variants": res.Depth1, "depth2_variants": res.Depth2, "evaluations": res.Evaluations, "executed": nExec}
		}
		hits = append(hits, res.Hits...)
		for _, s := range res.Samples {
			r.AddSample(s)
		}
	}
	if done < len(jobs) || partial > 0 {
		r.Expired()
		r.Note("deadline: %d of %d jobs ran, %d of them only partially", done, len(jobs), partial)
	}
	// violations: one signature per transformation class
	for _, h := range hits {
		var sig string
		switch h.Kind {
		case "replay", "same-block":
			prefix := "C06:replay-executes:"
			if h.Kind == "same-block" {
				prefix = "C06:same-block-replay-executes:"
			}
			if h.Depth == 2 {
				// attribute a composition to its parts when one of them replays on its own
				novel := true
				for _, c := range h.Classes {
					if execD1[c] {
						novel = false
					}
				}
				if !novel {
					continue
				}
				sig = prefix + "depth2:" + h.Class
			} else {
				sig = prefix + h.Class
			}
		case "window":
			sig = "C06:window:executes-outside:" + h.Class
		case "cross":
			sig = "C06:cross-executes:" + h.Class
		case "nonce":
			sig = "C06:nonce-floor:executes-below-floor"
			if h.Class == "below-floor-after-account-rewrite" {
				sig += ":after-account-rewrite"
			}
		}
		what := fmt.Sprintf("base %s; %s at %s: %s\n   base bytes    %s\n   variant bytes %s\n   state beyond the reference block: %v\n   decodes to the same signed content: %v; %s",
			h.Base, h.Kind, h.Where, h.Desc, h.BaseHex, h.VarHex, h.Diff, h.SameCont, h.Commit)
		if h.Stale {
			sig += ":after-stale-view-check"
			what = "a view from before the inclusion checked the same transactions first; " + what
		}
		if h.NoAcct {
			sig += ":index-by-account-off"
			what = "node configured with indexByAccount=false; " + what
		}
		r.Violation(sig, what, map[string]any{"part": "replay", "base": h.Base, "variant_hex": h.VarHex, "class": h.Class, "where": h.Where, "no_account_index": h.NoAcct, "stale_view": h.Stale})
		if len(r.Samples) < 6 && h.Depth <= 1 {
			r.AddSample(h)
		}
	}
	// class table
	type row struct {
		Class               string
		Submitted, Executed int
	}
	table := map[string]map[string]int{}
	var ks []string
	for k, st := range tot.PerClass {
		if strings.Contains(k, "|d2|") {
			continue
		}
		ks = append(ks, k)
		table[k] = map[string]int{"submitted": st.Submitted, "executed": st.Executed}
	}
	sort.Strings(ks)
	d2sub, d2exec := 0, 0
	for k, st := range tot.PerClass {
		if strings.Contains(k, "|d2|") {
			d2sub += st.Submitted
			d2exec += st.Executed
		}
	}
	fmt.Printf("C06: %d jobs, %d distinct variants (%d depth-1, %d depth-2), %d evaluations, %d distinct outcomes, worker cpu %.1fs\n", done, tot.Variants, tot.Depth1, tot.Depth2, tot.Evaluations, len(tot.Outcomes), float64(cpu)/1000)
	for _, k := range ks {
		st := tot.PerClass[k]
		fmt.Printf("  %-95s submitted=%-5d executed=%-5d\n", k, st.Submitted, st.Executed)
	}
	fmt.Printf("  depth-2 compositions: submitted=%d executed=%d\n", d2sub, d2exec)
	r.Finish(map[string]any{
		"evaluations":         tot.Evaluations,
		"distinct_nontrivial": tot.Variants,
		"rule":                "distinct byte strings different from the committed original that the generator produced (per base), each submitted in block k+1 (depth 1 also in k+2 and behind the original in block k)",
		"depth1_variants":     tot.Depth1,
		"depth2_variants":     tot.Depth2,
		"distinct_outcomes":   len(tot.Outcomes),
		"outcomes":            tot.Outcomes,
		"per_class_depth0_1":  table,
		"depth2_submitted":    d2sub,
		"depth2_executed":     d2exec,
		"per_base":            perBase,
		"per_part":            tot.Parts,
		"replaying_classes":   keys(execD1),
		"jobs":                len(jobs),
		"jobs_done":           done,
		"jobs_partial":        partial,
		"worker_cpu_s":        float64(cpu) / 1000,
		"bases":               len(bases),
		"hits_written_out":    len(hits),
	})
}

func keys(m map[string]bool) []string {
	var o []string
	for k := range m {
		o = append(o, k)
	}
	sort.Strings(o)
	return o
}

func doReplay(r *mc.Run) {
	var rp struct {
		Base   string `json:"base"`
		VarHex string `json:"variant_hex"`
		Class  string `json:"class"`
		NoAcct bool   `json:"no_account_index"`
		Stale  bool   `json:"stale_view"`
	}
	if err := r.LoadReplay(&rp); err != nil {
		fmt.Println("cannot load replay:", err)
		r.Finish(map[string]any{"evaluations": 0, "distinct_nontrivial": 0, "rule": "replay"})
	}
	var base baseSpec
	for _, b := range bases {
		if b.String() == rp.Base {
			base = b
		}
	}
	ev := 0
	for i := 0; i < 5; i++ {
		res := runJob(Job{Part: "replay", Base: base, Only: rp.VarHex, NoAcctIndex: rp.NoAcct, StaleView: rp.Stale})
		ev += res.Evaluations
		n := 0
		for _, h := range res.Hits {
			if h.Kind == "replay" {
				n++
				r.Violation("C06:replay-executes:"+rp.Class, fmt.Sprintf("replayed artefact executes again at %s: %v", h.Where, h.Diff), map[string]any{"base": rp.Base, "variant_hex": rp.VarHex, "class": rp.Class})
			}
		}
		fmt.Printf("replay %d: base=%s executed=%d err=%s\n", i, rp.Base, n, res.Err)
	}
	r.Finish(map[string]any{"evaluations": ev, "distinct_nontrivial": 2, "rule": "replay of one variant, 5 times"})
}
