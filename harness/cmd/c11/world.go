package main

import (
	"bytes"
	"context"
	"encoding/json"
	"fmt"
	"sort"
	"strings"

	"github.com/canopy-network/canopy/fsm"
	"github.com/canopy-network/canopy/lib"
	"github.com/canopy-network/canopy/lib/crypto"

	"verifharness/env"
)

// ---------------------------------------------------------------------------------------
// mempool alphabet

type item struct {
	name  string
	class string // canonical class used in violation signatures
	// expect: "include" (must be in the block when offered alone on the genesis state), "drop" (never included)
	// or "" (depends on context)
	make func(w *world, height uint64) []byte
}

const (
	itSendA = iota
	itSendB
	itEditStake
	itBadSig
	itInsufficient
	itConflictA
	itConflictB
	itFixedSend
	itBigSend
	itZeroField
	itReordered
	itGov
	itPartialQC // not a transaction: the certificate of this block is signed by a minimal quorum (one non-signer)
	nItems
)

// itManySmall is not part of the subset alphabet: 900 small transactions offered to a proposer whose block
// holds ~170 KB of transaction bytes (the "big" world): a block FULL of small transactions.
const itManySmall = 100

func mustTx(tx lib.TransactionI, e lib.ErrorI) []byte {
	if e != nil {
		panic(e)
	}
	bz, e := lib.Marshal(tx)
	if e != nil {
		panic(e)
	}
	return bz
}

func send(from, to int, amount, height uint64, memo string) []byte {
	return mustTx(fsm.NewSendTransaction(env.BLS(from), env.Addr(env.BLS(to)), amount, env.NetworkID, env.ChainID, 10000, height, memo))
}

// splitFields cuts a protobuf message into its top-level fields (raw bytes each).
func splitFields(bz []byte) (fields [][]byte) {
	for i := 0; i < len(bz); {
		start := i
		tag, n := uvarint(bz[i:])
		i += n
		switch tag & 7 {
		case 0:
			_, n = uvarint(bz[i:])
			i += n
		case 1:
			i += 8
		case 2:
			l, n := uvarint(bz[i:])
			i += n + int(l)
		case 5:
			i += 4
		default:
			panic("splitFields: unsupported wire type")
		}
		fields = append(fields, bz[start:i])
	}
	return
}

func uvarint(b []byte) (v uint64, n int) {
	for s := uint(0); n < len(b); s += 7 {
		c := b[n]
		n++
		v |= uint64(c&0x7f) << s
		if c < 0x80 {
			return
		}
	}
	panic("uvarint: truncated")
}

var items = [nItems]item{
	itSendA: {"sendA", "send", func(w *world, h uint64) []byte { return send(10, 11, 1000, h, "") }},
	itSendB: {"sendB", "send", func(w *world, h uint64) []byte { return send(12, 13, 2000, h, "") }},
	itEditStake: {"editStake", "edit-stake", func(w *world, h uint64) []byte {
		k := env.BLS(2)
		return mustTx(fsm.NewEditStakeTx(k, env.Addr(k), env.Addr(k), "tcp://v2", []uint64{env.ChainID}, 1_000_000+1000*h, env.NetworkID, env.ChainID, 10000, h, true, ""))
	}},
	itBadSig: {"badSig", "bad-signature", func(w *world, h uint64) []byte {
		tx, e := fsm.NewSendTransaction(env.BLS(10), env.Addr(env.BLS(11)), 7, env.NetworkID, env.ChainID, 10000, h, "")
		if e != nil {
			panic(e)
		}
		t := tx.(*lib.Transaction)
		t.Signature.Signature[10] ^= 0x55
		bz, _ := lib.Marshal(t)
		return bz
	}},
	itInsufficient: {"insufficient", "insufficient-funds", func(w *world, h uint64) []byte { return send(14, 11, 1_000_000, h, "") }},
	itConflictA:    {"conflictA", "conflicting-spend", func(w *world, h uint64) []byte { return send(15, 11, 70_000, h, "") }},
	itConflictB:    {"conflictB", "conflicting-spend", func(w *world, h uint64) []byte { return send(15, 13, 70_000, h, "") }},
	itFixedSend: {"fixedSend", "same-tx-again", func(w *world, h uint64) []byte {
		if w.fixed == nil {
			w.fixed = send(16, 11, 5, 1, "fixed")
		}
		return w.fixed
	}},
	itBigSend: {"bigSend", "large-tx", func(w *world, h uint64) []byte { return send(12, 11, 1, h, strings.Repeat("m", 200)) }},
	itZeroField: {"zeroField", "noncanonical:explicit-zero-field", func(w *world, h uint64) []byte {
		bz := send(13, 10, 3, h, "")
		// append field 10 (nonce, varint) with the explicit value 0: decodes to the same message
		return append(bz, 0x50, 0x00)
	}},
	itReordered: {"reordered", "noncanonical:reordered-fields", func(w *world, h uint64) []byte {
		f := splitFields(send(11, 12, 4, h, ""))
		// move the first field (message_type) behind all others
		var out []byte
		for _, x := range f[1:] {
			out = append(out, x...)
		}
		return append(out, f[0]...)
	}},
	itGov: {"govParam", "approved-change-parameter", func(w *world, h uint64) []byte {
		return mustTx(fsm.NewChangeParamTxUint64(env.BLS(0), fsm.ParamSpaceVal, fsm.ParamMaxPauseBlocks, 4380+h, 1, 1000, env.NetworkID, env.ChainID, 10000, h, ""))
	}},
	itPartialQC: {"partialQC", "certificate-with-non-signer", nil},
}

func noncanonical(i int) bool { return i == itZeroField || i == itReordered }

// ---------------------------------------------------------------------------------------

type world struct {
	g       *fsm.GenesisState
	A, B, C *env.Node
	fixed   []byte
	sendLen int
	made    map[string]string // tx bytes -> item name@height, for every tx ever offered in this world
}

func (w *world) close() {
	for _, n := range []*env.Node{w.A, w.B, w.C} {
		if n != nil {
			n.Close()
		}
	}
}

func genesis() (*fsm.GenesisState, int) {
	sample := send(10, 11, 1000, 1, "")
	acc := map[int]uint64{0: 10_000_000, 1: 10_000_000, 2: 10_000_000,
		10: 10_000_000, 11: 10_000_000, 12: 10_000_000, 13: 10_000_000, 14: 50_000, 15: 100_000, 16: 10_000_000}
	// four validators: three of them are a quorum, so a certificate can have a non-signer (key 3)
	vals := []env.ValSpec{{Key: 0, Stake: 1_000_000, OutputKey: -1}, {Key: 1, Stake: 1_000_000, OutputKey: -1}, {Key: 2, Stake: 1_000_000, OutputKey: -1}, {Key: 3, Stake: 1_000_000, OutputKey: -1}}
	g := env.NewGenesis(acc, vals, func(p *fsm.Params) {
		// room for two plain sends and a little more, but not for a third one
		p.Consensus.BlockSize = lib.MaxBlockHeaderSize + uint64(2*len(sample)+len(sample)/2)
	})
	return g, len(sample)
}

func newWorld(big ...bool) (*world, error) {
	g, sl := genesis()
	if len(big) > 0 && big[0] {
		g.Params.Consensus.BlockSize = lib.MaxBlockHeaderSize + 170_000
	}
	w := &world{g: g, sendLen: sl}
	var err error
	if w.A, err = env.NewNode(g, env.NodeOpts{Name: "A", Key: 0, ApproveList: true}); err != nil {
		return nil, err
	}
	if w.B, err = env.NewNode(g, env.NodeOpts{Name: "B", Key: 1, ApproveList: true}); err != nil {
		w.close()
		return nil, err
	}
	return w, nil
}

// blockReport is what one block step observed.
type blockReport struct {
	Height    uint64   `json:"height"`
	Offered   []string `json:"offered"`
	Rejected  []string `json:"rejected_by_mempool,omitempty"`
	Included  []string `json:"included"`
	Hash      string   `json:"hash"`
	StateRoot string   `json:"state_root"`
	PartialQC bool     `json:"partial_qc,omitempty"`
}

type problem struct {
	kind string // O1-..., O2-...
	what string
	blk  int // index of the block in the path
}

// step runs one block: mempool -> A proposes -> B validates and commits -> A commits.
func (w *world) step(mempool []int) (rep blockReport, probs []problem, fatal error) {
	h := w.A.Height()
	rep.Height = h
	var txs [][]byte
	approve := fsm.GovProposals{}
	var signers []int
	for _, it := range mempool {
		if it == itManySmall {
			for i := 0; i < 900; i++ {
				bz := send(10, 11, uint64(1+i), h, "")
				txs = append(txs, bz)
			}
			rep.Offered = append(rep.Offered, "900-small-sends")
			continue
		}
		if it == itPartialQC {
			signers = []int{0, 1, 2}
			rep.Offered = append(rep.Offered, items[it].name)
			continue
		}
		bz := items[it].make(w, h)
		if w.made == nil {
			w.made = map[string]string{}
		}
		if _, ok := w.made[string(bz)]; !ok {
			w.made[string(bz)] = fmt.Sprintf("%s@%d", items[it].name, h)
		}
		txs = append(txs, bz)
		rep.Offered = append(rep.Offered, items[it].name)
		if it == itGov {
			approve[crypto.HashString(bz)] = fsm.GovProposalWithVote{Proposal: json.RawMessage(`{}`), Approve: true}
		}
	}
	// the same governance-vote configuration on every validating node
	for _, n := range []*env.Node{w.A, w.B} {
		if e := approve.SaveToFile(n.Dir); e != nil {
			return rep, nil, e
		}
	}
	for i, e := range w.A.SubmitTxs(txs...) {
		if e != nil && i < len(mempool) && mempool[i] < nItems {
			rep.Rejected = append(rep.Rejected, items[mempool[i]].name)
		}
	}
	p, e := w.A.Propose()
	if e != nil {
		return rep, []problem{{kind: "O1-proposer-cannot-build", what: fmt.Sprintf("A.ProduceProposal failed at height %d: %v", h, e)}}, nil
	}
	for _, tx := range p.Block.Transactions {
		name := "?"
		for i, t := range txs {
			if bytes.Equal(t, tx) {
				if len(mempool) == 1 && mempool[0] == itManySmall {
					name = "sendA"
				} else if i < len(mempool) && mempool[i] < nItems {
					name = items[mempool[i]].name
				}
			}
		}
		if name == "?" {
			if n, ok := w.made[string(tx)]; ok {
				name = n // left over from an earlier mempool of this chain
			}
		}
		rep.Included = append(rep.Included, name)
	}
	rep.Hash = lib.BytesToString(p.Block.BlockHeader.Hash)
	rep.StateRoot = lib.BytesToString(p.Block.BlockHeader.StateRoot)
	// O1: the replica accepts the proposal ...
	if _, e = w.B.ValidateProposal(p, 0, true); e != nil {
		diff := ""
		if strings.Contains(e.Error(), "unequal block hash") {
			diff = "\n   replica-side header differs in: " + w.headerDiff(w.B, p)
		}
		probs = append(probs, problem{kind: "O1-replica-rejects-honest-proposal", what: fmt.Sprintf("B.ValidateProposal(A.ProduceProposal()) at height %d: %v%s", h, oneLine(e), diff)})
		return rep, probs, nil
	}
	qc, e := w.A.Certify(p, 0, signers, 0)
	if e != nil {
		return rep, nil, e
	}
	rep.PartialQC = signers != nil
	msg := &lib.BlockMessage{ChainId: env.ChainID, BlockAndCertificate: qc, Time: 1_700_000_000_000_000}
	wire, e := env.WireCopy(msg)
	if e != nil {
		return rep, nil, e
	}
	// ... and commits to the same header hash
	if e = w.B.HandlePeerBlock(wire, false); e != nil {
		probs = append(probs, problem{kind: "O1-replica-cannot-commit", what: fmt.Sprintf("B.HandlePeerBlock at height %d: %v", h, oneLine(e))})
		return rep, probs, nil
	}
	if e = w.A.HandlePeerBlock(msg, false); e != nil {
		probs = append(probs, problem{kind: "O1-proposer-cannot-commit-own-block", what: fmt.Sprintf("A.HandlePeerBlock at height %d: %v", h, oneLine(e))})
		return rep, probs, nil
	}
	ha, e1 := w.A.LastHeader()
	hb, e2 := w.B.LastHeader()
	if e1 != nil || e2 != nil || ha == nil || hb == nil {
		return rep, nil, fmt.Errorf("cannot load committed headers: %v %v", e1, e2)
	}
	if !bytes.Equal(ha.Hash, p.Block.BlockHeader.Hash) || !bytes.Equal(hb.Hash, p.Block.BlockHeader.Hash) || ha.Height != h || hb.Height != h {
		probs = append(probs, problem{kind: "O1-committed-hash-differs", what: fmt.Sprintf("height %d: proposed %x, A committed %x, B committed %x", h, p.Block.BlockHeader.Hash, ha.Hash, hb.Hash)})
	}
	return rep, probs, nil
}

// syncC replays A's archive on a fresh syncing node and compares every hash and state root.
func (w *world) syncC(reports []blockReport) (probs []problem, fatal error) {
	if w.C != nil {
		w.C.Close()
	}
	var err error
	if w.C, err = env.NewNode(w.g, env.NodeOpts{Name: "C", Key: 2}); err != nil {
		return nil, err
	}
	// the archive is served by a node that was restarted after the last commit (every layer above the
	// database is rebuilt, as after a process restart): what it serves must not depend on what a restart
	// happens to load first
	if e := w.A.Restart(); e != nil {
		return []problem{{kind: "O2-archive-node-cannot-restart", blk: len(reports) - 1, what: "re-opening node A: " + oneLine(e)}}, nil
	}
	for i, rep := range reports {
		h := rep.Height
		msg, e := w.A.Serve(h)
		if e != nil {
			probs = append(probs, problem{kind: "O2-archive-cannot-serve", blk: i, what: fmt.Sprintf("A.LoadCertificate(%d): %v", h, oneLine(e))})
			return probs, nil
		}
		qc := msg.BlockAndCertificate
		// the served block bytes hash to the certified block hash, which is the hash that was committed
		got, e := new(lib.Block).BytesToBlockHash(qc.Block)
		if e != nil || !bytes.Equal(got, qc.BlockHash) || lib.BytesToString(qc.BlockHash) != rep.Hash {
			probs = append(probs, problem{kind: "O2-served-block-hash-differs", blk: i, what: fmt.Sprintf("height %d: served block hashes to %x, certificate names %x, committed %s (%v)", h, got, qc.BlockHash, rep.Hash, e)})
		}
		// served transactions are the committed transactions, byte for byte
		sb := new(lib.Block)
		if e = lib.Unmarshal(qc.Block, sb); e == nil {
			if pb, e2 := w.B.Serve(h); e2 == nil && !bytes.Equal(pb.BlockAndCertificate.Block, qc.Block) {
				probs = append(probs, problem{kind: "O2-archives-serve-different-bytes", blk: i, what: fmt.Sprintf("height %d: A and B serve different block bytes for the same committed block", h)})
			}
		}
		wire, e := env.WireCopy(msg)
		if e != nil {
			return nil, e
		}
		if e = w.C.HandlePeerBlock(wire, true); e != nil {
			probs = append(probs, problem{kind: "O2-fresh-node-rejects-served-block", blk: i, what: fmt.Sprintf("C.HandlePeerBlock(A.Serve(%d), syncing) failed: %v", h, oneLine(e))})
			return probs, nil
		}
		hc, e := w.C.LastHeader()
		if e != nil || hc == nil {
			return nil, fmt.Errorf("C header: %v", e)
		}
		if lib.BytesToString(hc.Hash) != rep.Hash || lib.BytesToString(hc.StateRoot) != rep.StateRoot {
			probs = append(probs, problem{kind: "O2-replay-differs", blk: i, what: fmt.Sprintf("height %d: C reproduced hash %x root %x, A committed %s root %s", h, hc.Hash, hc.StateRoot, rep.Hash, rep.StateRoot)})
		}
	}
	// full state equality at the tip
	ka, _ := env.StateKey(w.A.FSM())
	kc, _ := env.StateKey(w.C.FSM())
	kb, _ := env.StateKey(w.B.FSM())
	if ka != kc || ka != kb {
		probs = append(probs, problem{kind: "O2-state-differs-at-tip", blk: len(reports) - 1, what: fmt.Sprintf("state keys A=%s B=%s C=%s", ka, kb, kc)})
	}
	return probs, nil
}

// headerDiff recomputes the header of p's block on a copy of n's FSM (replica semantics) and names the fields that differ.
func (w *world) headerDiff(n *env.Node, p *env.Proposal) string {
	n.Enter()
	cp, e := n.FSM().Copy()
	if e != nil {
		return e.Error()
	}
	defer cp.Discard()
	blk := new(lib.Block)
	if e = lib.Unmarshal(p.BlockBytes, blk); e != nil {
		return e.Error()
	}
	if q := blk.BlockHeader.LastQuorumCertificate; q != nil && q.Header != nil {
		if e = cp.Store().(lib.StoreI).IndexQC(q); e != nil {
			return e.Error()
		}
	}
	hdr, res, e := cp.ApplyBlock(context.Background(), blk, false)
	if e != nil {
		return "ApplyBlock: " + oneLine(e)
	}
	a, b := p.Block.BlockHeader, hdr
	var d []string
	add := func(name string, x, y any) {
		if fmt.Sprint(x) != fmt.Sprint(y) {
			d = append(d, fmt.Sprintf("%s proposer=%v replica=%v", name, x, y))
		}
	}
	add("height", a.Height, b.Height)
	add("time", a.Time, b.Time)
	add("numTxs", a.NumTxs, b.NumTxs)
	add("totalTxs", a.TotalTxs, b.TotalTxs)
	add("stateRoot", lib.BytesToString(a.StateRoot), lib.BytesToString(b.StateRoot))
	add("transactionRoot", lib.BytesToString(a.TransactionRoot), lib.BytesToString(b.TransactionRoot))
	add("validatorRoot", lib.BytesToString(a.ValidatorRoot), lib.BytesToString(b.ValidatorRoot))
	add("nextValidatorRoot", lib.BytesToString(a.NextValidatorRoot), lib.BytesToString(b.NextValidatorRoot))
	add("lastBlockHash", lib.BytesToString(a.LastBlockHash), lib.BytesToString(b.LastBlockHash))
	add("totalVdfIterations", a.TotalVdfIterations, b.TotalVdfIterations)
	add("proposer", lib.BytesToString(a.ProposerAddress), lib.BytesToString(b.ProposerAddress))
	if len(res.Failed) > 0 {
		d = append(d, fmt.Sprintf("%d txs fail on the replica: %v", len(res.Failed), res.Failed[0].Error))
	}
	if len(d) == 0 {
		return "(nothing: a copy of the replica's committed state reproduces the proposer's header)"
	}
	return strings.Join(d, "; ")
}

func oneLine(e lib.ErrorI) string {
	s := e.Error()
	if i := strings.Index(s, "Message:"); i >= 0 {
		s = strings.TrimSpace(s[i+8:])
	}
	return strings.ReplaceAll(strings.TrimSpace(s), "\n", " ")
}

// included item classes of a block report, for signatures
func blockClass(rep blockReport) string {
	var cs []string
	seen := map[string]bool{}
	nc := false
	for _, n := range rep.Included {
		if k := strings.IndexByte(n, '@'); k >= 0 {
			n = n[:k]
		}
		for i := range items {
			if items[i].name == n {
				if noncanonical(i) {
					nc = true
				}
				if !seen[items[i].class] {
					seen[items[i].class] = true
					cs = append(cs, items[i].class)
				}
			}
		}
	}
	if nc {
		// the non-canonical encoding is the explanation; name only those classes
		var only []string
		for _, c := range cs {
			if strings.HasPrefix(c, "noncanonical") {
				only = append(only, c)
			}
		}
		// one class per root cause: when several non-canonical encodings are in the block, the first (sorted) names it
		sort.Strings(only)
		cs = only[:1]
	}
	sort.Strings(cs)
	if len(cs) == 0 {
		return "empty-block"
	}
	return strings.Join(cs, "+")
}
