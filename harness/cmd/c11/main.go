// C11 — block portability: honest proposals and served blocks validate everywhere.
//
// Level: model_checking (explicit-state BFS over chains of mempools; a state is identified
// with the shortest mempool sequence reaching it because live nodes cannot be cloned; a
// transition = fresh nodes + replay of the path + one more block; states are de-duplicated
// by the full key/value dump of the committed state).
//
// World: three real controller-level nodes (env.Node). A proposes from its mempool, B
// validates as a replica and commits, C is a fresh node that syncs everything from A's
// archive (HandlePeerBlock(.., syncing=true) fed with exactly what ListenForBlockRequests
// sends). A and B share the governance vote configuration (APPROVE_LIST, same proposals.json).
// The block-size parameter is shrunk so that two plain sends fill a block.
//
// O1: B.ValidateProposal(A.ProduceProposal()) succeeds and B (and A) commit the proposed header hash.
// O2: for every committed height h the block served by A hashes to the certified hash, A and B
//
//	serve the same bytes, and C reproduces every block hash and state root from genesis; the
//	three state dumps are equal at the tip.
package main

import (
	"flag"
	"fmt"
	"os"
	"runtime/debug"
	"runtime/pprof"
	"sort"
	"strings"
	"syscall"
	"time"

	"verifharness/env"
	"verifharness/mc"
)

type job struct {
	Path [][]int `json:"path"` // mempool (item indices) per block
	Big  bool    `json:"big,omitempty"` // the world whose blocks hold ~100 KB of transaction bytes
}

type result struct {
	OK         bool          `json:"ok"`
	Key        string        `json:"key"`
	Viols      []mc.Viol     `json:"viols,omitempty"`
	Reports    []blockReport `json:"reports,omitempty"`
	HarnessErr string        `json:"harness_err,omitempty"`
	CPUms      int64         `json:"cpu_ms"`
	Steps      int           `json:"steps"`
}

func cpuMs() int64 {
	var ru syscall.Rusage
	_ = syscall.Getrusage(syscall.RUSAGE_SELF, &ru)
	return (ru.Utime.Sec+ru.Stime.Sec)*1000 + int64(ru.Utime.Usec+ru.Stime.Usec)/1000
}

func pathNames(p [][]int) [][]string {
	out := make([][]string, len(p))
	for i, m := range p {
		out[i] = []string{}
		for _, it := range m {
			if it == itManySmall {
				out[i] = append(out[i], "900-small-sends")
				continue
			}
			out[i] = append(out[i], items[it].name)
		}
	}
	return out
}

func execPath(j job) (res result) {
	c0 := cpuMs()
	defer func() {
		res.CPUms = cpuMs() - c0
		if p := recover(); p != nil {
			res.HarnessErr = fmt.Sprintf("panic: %v\n%s", p, debug.Stack())
		}
	}()
	w, err := newWorld(j.Big)
	if err != nil {
		res.HarnessErr = err.Error()
		return
	}
	defer w.close()
	var probs []problem
	for i, mp := range j.Path {
		rep, ps, fatal := w.step(mp)
		res.Steps++
		if fatal != nil {
			res.HarnessErr = fmt.Sprintf("block %d: %v", i, fatal)
			return
		}
		res.Reports = append(res.Reports, rep)
		for k := range ps {
			ps[k].blk = i
		}
		probs = append(probs, ps...)
		if len(ps) > 0 {
			break // the chain cannot be extended past a failed step
		}
	}
	if len(probs) == 0 && len(res.Reports) > 0 {
		ps, fatal := w.syncC(res.Reports)
		if fatal != nil {
			res.HarnessErr = "sync: " + fatal.Error()
			return
		}
		probs = append(probs, ps...)
	}
	for _, p := range probs {
		cls := "?"
		if p.blk < len(res.Reports) {
			cls = blockClass(res.Reports[p.blk])
		}
		res.Viols = append(res.Viols, mc.Viol{
			Sig:    "C11:" + p.kind + ":block-contains[" + cls + "]",
			What:   fmt.Sprintf("mempool sequence %v, block %d: %s\n   blocks: %+v", pathNames(j.Path), p.blk+1, p.what, res.Reports),
			Replay: map[string]any{"path": j.Path, "names": pathNames(j.Path), "big": j.Big},
		})
	}
	if len(probs) > 0 {
		return
	}
	k, e := env.StateKey(w.A.FSM())
	if e != nil {
		res.HarnessErr = e.Error()
		return
	}
	// the certificate of the last block is not part of the state dump but decides the next begin-block
	res.Key, res.OK = fmt.Sprintf("%d|%s|%v", w.A.Height(), k, len(res.Reports) > 0 && res.Reports[len(res.Reports)-1].PartialQC), true
	return
}

// subsets of the alphabet of size <= k
func subsets(n, k int) (out [][]int) {
	var rec func(start int, cur []int)
	rec = func(start int, cur []int) {
		out = append(out, append([]int{}, cur...))
		if len(cur) == k {
			return
		}
		for i := start; i < n; i++ {
			rec(i+1, append(cur, i))
		}
	}
	rec(0, nil)
	sort.SliceStable(out, func(a, b int) bool { return len(out[a]) < len(out[b]) })
	return
}

// chosen triples offered at deeper levels of the quick tier
var quickTriples = [][]int{
	{itSendA, itSendB, itBigSend}, {itSendA, itSendB, itFixedSend}, {itConflictA, itConflictB, itSendA},
	{itZeroField, itReordered, itSendA}, {itGov, itEditStake, itSendB}, {itBadSig, itInsufficient, itFixedSend},
}

func main() {
	if mc.IsWorker() {
		mc.ServeWorker(func(j job) result { return execPath(j) })
	}
	only := flag.String("only", "", "comma separated item names: restrict the alphabet (mutant runs)")
	nworkers := flag.Int("workers", 0, "worker processes (0 = one per CPU)")
	r := mc.Start("C11", "model_checking", 70*time.Second, 27*time.Minute)
	r.Assumptions = []string{
		"nodes are driven through the controller's exported entry points in the order the listeners call them (env.Node); bft, p2p and timers are not running; certificates are signed by the whole committee",
		"governance vote mode APPROVE_LIST on A and B with the same proposals.json (bft deadline pinned, see env/node.go); C syncs with the default accept-all mode like any syncing node",
		"block time is the proposer's wall clock (an input, not an oracle); transaction time stamps likewise",
		"state identity for de-duplication = full key/value dump of the committed state (indexer contents are compared through hashes and roots instead)",
		"alphabet of 12 mempool items (see coverage.alphabet); amounts and accounts are fixed; every mempool is a subset of the alphabet",
		"one world per worker process; process-wide block LRU and signature cache purged on every role switch",
	}
	if r.Replay != "" {
		var rp struct {
			Path [][]int `json:"path"`
			Big  bool    `json:"big"`
		}
		if err := r.LoadReplay(&rp); err != nil {
			fmt.Println("cannot load replay:", err)
		}
		if pf := os.Getenv("VERIF_CPUPROFILE"); pf != "" {
			f, _ := os.Create(pf)
			_ = pprof.StartCPUProfile(f)
			defer pprof.StopCPUProfile()
		}
		for i := 0; i < 5; i++ {
			res := execPath(job{Path: rp.Path, Big: rp.Big})
			fmt.Printf("replay %d: ok=%v key=%s err=%s reports=%+v\n", i, res.OK, res.Key, res.HarnessErr, res.Reports)
			for _, v := range res.Viols {
				r.OnViol(v)
			}
		}
		pprof.StopCPUProfile()
		r.Finish(map[string]any{"states": 1, "transitions": len(rp.Path), "traces_validated_against_impl": 1})
	}
	alphabet := make([]int, 0, nItems)
	for i := 0; i < nItems; i++ {
		if *only == "" || strings.Contains(","+*only+",", ","+items[i].name+",") {
			alphabet = append(alphabet, i)
		}
	}
	mapIdx := func(ss [][]int) [][]int {
		out := make([][]int, len(ss))
		for i, s := range ss {
			for _, x := range s {
				out[i] = append(out[i], alphabet[x])
			}
		}
		return out
	}
	all3 := mapIdx(subsets(len(alphabet), 3))
	all2 := mapIdx(subsets(len(alphabet), 2))
	all1 := mapIdx(subsets(len(alphabet), 1))
	// per-level mempool menus and frontier caps
	type level struct {
		menu [][]int
		cap  int // max number of distinct states expanded at this level (0 = all)
	}
	var levels []level
	if r.Quick() {
		l2 := append(append([][]int{}, all2...), quickTriples...)
		if *only != "" {
			l2 = all2
		}
		levels = []level{{all3, 0}, {l2, 16}, {all1, 24}}
	} else {
		levels = []level{{all3, 0}, {all3, 60}, {all3, 60}, {all2, 80}, {all1, 120}}
	}
	pool := mc.NewProcPool(*nworkers)
	// one-off: a block full of small transactions (two of them, so that the second builds on a full one)
	var bigNote string
	if *only == "" {
		bj := job{Path: [][]int{{itManySmall}, {itManySmall}}, Big: true}
		br, crashed := mc.Map[job, result](pool, []job{bj}, r.Expired)
		switch {
		case crashed[0]:
			r.Violation("C11:worker-crash", "worker died twice on the full-block job", bj)
		case br[0] == nil:
			bigNote = "full-block job not run (deadline)"
		case br[0].HarnessErr != "":
			bigNote = "full-block job: harness error: " + br[0].HarnessErr
			r.Note("%s", bigNote)
		default:
			for _, v := range br[0].Viols {
				r.OnViol(v)
			}
			if len(br[0].Reports) > 0 {
				bigNote = fmt.Sprintf("full-block job: %d of 900 small sends included in block 1, %d in block 2", len(br[0].Reports[0].Included), len(br[0].Reports[len(br[0].Reports)-1].Included))
			}
		}
		fmt.Println(bigNote)
	}
	type st struct {
		path [][]int
	}
	frontier := []st{{}}
	seen := map[string]bool{}
	var states, harnessErrs int
	var transitions, steps, cpu int64
	var frontierSizes, expanded []int
	itemStats := map[string]map[string]int{} // item -> offered/included/mempool-rejected
	bump := func(it, what string) {
		if itemStats[it] == nil {
			itemStats[it] = map[string]int{}
		}
		itemStats[it][what]++
	}
	depthDone := 0
	complete := true
	for d, lv := range levels {
		if len(frontier) == 0 {
			break
		}
		// even sampling of the frontier when capped
		exp := frontier
		if lv.cap > 0 && len(frontier) > lv.cap {
			complete = false
			exp = nil
			// states whose last certificate has a non-signer first (at most half of the cap), then an even sample
			var rest []st
			for _, f := range frontier {
				last := f.path[len(f.path)-1]
				if len(exp) < lv.cap/2 && len(last) > 0 && last[len(last)-1] == itPartialQC {
					exp = append(exp, f)
				} else {
					rest = append(rest, f)
				}
			}
			for i, n := 0, lv.cap-len(exp); i < n && len(rest) > 0; i++ {
				exp = append(exp, rest[i*len(rest)/n])
			}
		}
		expanded = append(expanded, len(exp))
		var jobs []job
		for _, s := range exp {
			for _, m := range lv.menu {
				p := append(append([][]int{}, s.path...), m)
				jobs = append(jobs, job{Path: p})
			}
		}
		results, crashed := mc.Map[job, result](pool, jobs, r.Expired)
		var next []st
		missing := false
		for i, res := range results {
			if crashed[i] {
				r.Violation("C11:worker-crash", fmt.Sprintf("worker died twice on %v", pathNames(jobs[i].Path)), jobs[i])
				continue
			}
			if res == nil {
				missing = true
				continue
			}
			transitions++
			steps += int64(res.Steps)
			cpu += res.CPUms
			if res.HarnessErr != "" {
				harnessErrs++
				if harnessErrs <= 3 {
					fmt.Fprintf(os.Stderr, "HARNESS ERROR %v: %s\n", pathNames(jobs[i].Path), res.HarnessErr)
					r.Note("harness error on %v: %.300s", pathNames(jobs[i].Path), res.HarnessErr)
				}
				continue
			}
			for _, v := range res.Viols {
				r.OnViol(v)
			}
			if n := len(res.Reports); n == len(jobs[i].Path) && n > 0 {
				last := res.Reports[n-1]
				for _, o := range last.Offered {
					bump(o, "offered")
				}
				for _, o := range last.Included {
					bump(o, "included")
				}
				for _, o := range last.Rejected {
					bump(o, "refused_by_mempool")
				}
			}
			if !res.OK {
				continue
			}
			if seen[res.Key] {
				continue
			}
			seen[res.Key] = true
			states++
			next = append(next, st{jobs[i].Path})
			if states%37 == 5 {
				r.AddSample(map[string]any{"mempools": pathNames(jobs[i].Path), "blocks": res.Reports})
			}
		}
		frontierSizes = append(frontierSizes, len(next))
		fmt.Printf("depth %d: expanded %d states x %d mempools = %d transitions, %d new distinct states (cpu so far %.0fs)\n", d+1, len(exp), len(lv.menu), len(jobs), len(next), float64(cpu)/1000)
		if missing {
			complete = false
			r.Exhaustive = false
			break
		}
		depthDone = d + 1
		frontier = next
	}
	if harnessErrs > 0 {
		r.Exhaustive = false
		r.Note("%d transitions ended in a harness error", harnessErrs)
	}
	if !complete {
		r.Exhaustive = false
	}
	var names []string
	for i := 0; i < nItems; i++ {
		names = append(names, items[i].name+" ("+items[i].class+")")
	}
	var menus []int
	var caps []int
	for _, lv := range levels {
		menus = append(menus, len(lv.menu))
		caps = append(caps, lv.cap)
	}
	cov := map[string]any{
		"states":                        states + 1,
		"transitions":                   transitions,
		"traces_validated_against_impl": transitions,
		"explanation":                   "every transition is an execution of the whole mempool sequence on three real nodes (A proposes, B validates+commits, C syncs A's archive from genesis) with O1/O2 checked on every block; there is no separate model trace",
		"block_steps":                   steps,
		"depth_completed":               depthDone,
		"new_states_per_depth":          frontierSizes,
		"states_expanded_per_depth":     expanded,
		"mempools_per_state_per_depth":  menus,
		"frontier_caps":                 caps,
		"alphabet":                      names,
		"item_statistics":               itemStats,
		"worker_cpu_seconds":            float64(cpu) / 1000,
		"cpu_ms_per_block_step":         float64(cpu) / float64(max64(steps, 1)),
	}
	r.Finish(cov)
}

func max64(a, b int64) int64 {
	if a > b {
		return a
	}
	return b
}
