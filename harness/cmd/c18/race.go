package main

// The "no data race" clause: a free-running pass (real send service, real receive service,
// real heartbeat goroutine, real goroutines for every Send) executed by a copy of this
// program built with -race. The parent builds the copy in the background, runs it as a child
// process and turns every race report that involves canopy code into a finding. The child also
// applies the delivery oracle (every delivered message is exactly one sent message); that part
// is a bonus, the verdict on delivery is the exhaustive pass in main.go.

import (
	"bytes"
	"encoding/json"
	"flag"
	"fmt"
	"net"
	"os"
	"os/exec"
	"path/filepath"
	"regexp"
	"runtime"
	"sort"
	"strings"
	"sync"
	"time"

	"github.com/canopy-network/canopy/lib"
	"github.com/canopy-network/canopy/p2p"

	"verifharness/mc"
)

// ---------------------------------------------------------------------------------------
// child

type raceSummary struct {
	Reps             int      `json:"reps"`
	RepsHeartbeat    int      `json:"reps_with_heartbeat_exchange"`
	RepsMalformed    int      `json:"reps_malformed_close_under_traffic"`
	RepsRealPath     int      `json:"reps_real_handshake_path"`
	Messages         int      `json:"messages_checked"`
	OracleFailures   []string `json:"oracle_failures,omitempty"`
	Timeouts         int      `json:"timeouts"`
	RepsDisturbed    int      `json:"reps_where_canopy_closed_a_connection_by_itself"`
	DisturbedBy      string   `json:"closed_by,omitempty"`
	Stale            int      `json:"late_deliveries_of_an_earlier_repetition"`
	Seconds          float64  `json:"seconds"`
	RaceInstrumented bool     `json:"race_instrumented"`
}

type fsend struct {
	from  *p2p.MultiConn
	to    *node
	info  *lib.PeerInfo // how the destination knows the source
	topic lib.Topic
	msg   *message
}

type flink struct {
	sc, rc       *p2p.MultiConn
	sconn, rconn *memConn
	info, rinfo  *lib.PeerInfo
}

// abortSig is closed when a connection of the scenario reports an error (e.g. canopy's own
// 3 s heartbeat timeout on an overloaded machine): readers stop waiting, completeness of
// delivery is then not asserted for that repetition.
type abortSig struct {
	once sync.Once
	ch   chan struct{}
	why  string
}

func newAbort() *abortSig { return &abortSig{ch: make(chan struct{})} }
func (a *abortSig) fire(err error) {
	a.once.Do(func() { a.why = errClass(err); close(a.ch) })
}
func (a *abortSig) fired() bool {
	select {
	case <-a.ch:
		return true
	default:
		return false
	}
}

func newFlink(s, r *node, i int, ab *abortSig) *flink {
	l := &flink{}
	l.sconn, l.rconn = newMemPipe(fmt.Sprintf("mem-s%d", i), fmt.Sprintf("mem-r%d", i))
	l.info = &lib.PeerInfo{Address: &lib.PeerAddress{PublicKey: s.pub, NetAddress: string(l.sconn.local), PeerMeta: &lib.PeerMeta{ChainId: 1}}}
	l.rinfo = &lib.PeerInfo{Address: &lib.PeerAddress{PublicKey: r.pub, NetAddress: string(l.rconn.local), PeerMeta: &lib.PeerMeta{ChainId: 1}}, IsOutbound: true}
	l.sc = p2p.VerifC18NewMultiConn(s.p, l.sconn, l.rinfo, nil, ab.fire)
	l.rc = p2p.VerifC18NewMultiConn(r.p, l.rconn, l.info, nil, ab.fire)
	l.sc.VerifC18StartAll()
	l.rc.VerifC18StartAll()
	return l
}

// collect reads n messages of a topic from a node's inbox (the way the controller's listeners do).
func collect(nd *node, topic lib.Topic, n int, out *[]delivered, mu *sync.Mutex, wg *sync.WaitGroup, timeouts *int, ab *abortSig) {
	collectFor(90*time.Second, nd, topic, n, out, mu, wg, timeouts, ab)
}

func collectFor(d time.Duration, nd *node, topic lib.Topic, n int, out *[]delivered, mu *sync.Mutex, wg *sync.WaitGroup, timeouts *int, ab *abortSig) {
	defer wg.Done()
	deadline := time.After(d)
	for i := 0; i < n; i++ {
		select {
		case m := <-nd.p.Inbox(topic):
			mu.Lock()
			*out = append(*out, delivered{topic, m.Sender, m.Message})
			mu.Unlock()
		case <-ab.ch:
			return
		case <-deadline:
			mu.Lock()
			*timeouts++
			mu.Unlock()
			return
		}
	}
}

// history of everything sent by this process: nodes (and their inboxes) are reused across
// repetitions and a receive service that was stopped may still deliver the packet it was
// handling, so a message of an earlier repetition may show up later. That is not a mix-up.
var (
	histMu  sync.Mutex
	history []fsend
	stale   int
)

func sentBefore(nd *node, d delivered) bool {
	histMu.Lock()
	defer histMu.Unlock()
	for _, s := range history {
		if s.to == nd && s.topic == d.topic && d.sender != nil && d.sender.Address != nil && bytes.Equal(d.sender.Address.PublicKey, s.info.Address.PublicKey) && bytes.Equal(s.msg.payload, d.msg) {
			return true
		}
	}
	return false
}

// checkDelivered: every delivered message is exactly one sent message (topic, bytes, sender);
// exact = nothing may be missing either.
func checkDelivered(what string, sends []fsend, got map[*node][]delivered, exact bool) (fails []string) {
	used := make([]bool, len(sends))
	for nd, ds := range got {
		for _, d := range ds {
			ok := false
			for i, s := range sends {
				if !used[i] && s.to == nd && s.topic == d.topic && s.info == d.sender && bytes.Equal(s.msg.payload, d.msg) {
					used[i], ok = true, true
					break
				}
			}
			if !ok && sentBefore(nd, d) {
				stale++
				ok = true
			}
			if !ok {
				fails = append(fails, fmt.Sprintf("%s: topic %d holds %d bytes that are not a sent message of that topic and peer", what, d.topic, len(d.msg)))
			}
		}
	}
	if exact {
		for i, s := range sends {
			if !used[i] {
				fails = append(fails, fmt.Sprintf("%s: m%d (%d bytes) on topic %d not delivered", what, s.msg.id, s.msg.size, s.topic))
			}
		}
	}
	histMu.Lock()
	history = append(history, sends...)
	if len(history) > 400 {
		history = history[len(history)-400:]
	}
	histMu.Unlock()
	return
}

func drainInboxes(nodes ...*node) {
	for _, nd := range nodes {
		for t := lib.Topic(0); t <= K.HeartbeatTopic; t++ {
			for len(nd.p.Inbox(t)) > 0 {
				<-nd.p.Inbox(t)
			}
		}
	}
}

// scenarioA: two peers -> one receiver plus reverse traffic, all services running; then the
// connections are stopped while late Sends are in flight.
func scenarioA(R, S0, S1 *node, rep int, heartbeat bool, sum *raceSummary) {
	ab := newAbort()
	l0, l1 := newFlink(S0, R, 0, ab), newFlink(S1, R, 1, ab)
	c := K.MaxDataChunkSize
	sizes := []int{2*c + 1, c + 1, 17, 0, c - 1, 300, 64, 5} // few multi-packet messages: the race detector makes every copied byte expensive
	sends := []fsend{
		{l0.sc, R, l0.info, tX, nil}, {l0.sc, R, l0.info, tX, nil}, {l0.sc, R, l0.info, tY, nil},
		{l1.sc, R, l1.info, tX, nil}, {l0.sc, R, l0.info, lib.Topic_CONSENSUS, nil}, {l1.sc, R, l1.info, tY, nil},
		// reverse direction over the same connections
		{l0.rc, S0, l0.rinfo, tX, nil}, {l0.rc, S0, l0.rinfo, tX, nil},
	}
	for i := range sends {
		sends[i].msg = mkMessage(i+1, sizes[(i+rep)%len(sizes)])
	}
	var mu sync.Mutex
	var cwg, swg sync.WaitGroup
	got := map[*node]*[]delivered{R: {}, S0: {}}
	need := map[*node]map[lib.Topic]int{R: {}, S0: {}}
	for _, s := range sends {
		need[s.to][s.topic]++
	}
	for nd, m := range need {
		for t, n := range m {
			cwg.Add(1)
			go collect(nd, t, n, got[nd], &mu, &cwg, &sum.Timeouts, ab)
		}
	}
	start := make(chan struct{})
	for _, s := range sends {
		s := s
		swg.Add(1)
		go func() {
			defer swg.Done()
			<-start
			s.from.Send(s.topic, s.msg.payload)
		}()
	}
	close(start)
	swg.Wait()
	cwg.Wait()
	disturbed := ab.fired()
	if disturbed {
		sum.RepsDisturbed++
		sum.DisturbedBy = ab.why
	}
	mu.Lock()
	sum.OracleFailures = append(sum.OracleFailures, checkDelivered(fmt.Sprintf("free-running rep %d", rep), sends, map[*node][]delivered{R: *got[R], S0: *got[S0]}, sum.Timeouts == 0 && !disturbed)...)
	mu.Unlock()
	sum.Messages += len(sends)
	if heartbeat && !disturbed {
		time.Sleep(K.HeartbeatInterval + 200*time.Millisecond) // pings and pongs flow on both connections
		sum.RepsHeartbeat++
	}
	// stop under traffic: late Sends race with Stop() called from another goroutine
	var lwg sync.WaitGroup
	late := []fsend{{l0.sc, R, l0.info, tX, mkMessage(9, c+5)}, {l0.rc, S0, l0.rinfo, tY, mkMessage(10, 40)}, {l1.sc, R, l1.info, tY, mkMessage(11, c+9)}, {l1.sc, R, l1.info, tX, mkMessage(12, 9)}}
	for _, s := range late {
		s := s
		lwg.Add(1)
		go func() { defer lwg.Done(); s.from.Send(s.topic, s.msg.payload) }()
	}
	runtime.Gosched()
	l0.rc.Stop()
	l1.sc.Stop()
	lwg.Wait()
	l0.sc.Stop()
	l1.rc.Stop()
	time.Sleep(5 * time.Millisecond)
	// whatever was delivered late must still be whole
	lateGot := map[*node][]delivered{}
	for _, nd := range []*node{R, S0} {
		for t := lib.Topic(0); t <= K.HeartbeatTopic; t++ {
			for len(nd.p.Inbox(t)) > 0 {
				m := <-nd.p.Inbox(t)
				lateGot[nd] = append(lateGot[nd], delivered{t, m.Sender, m.Message})
			}
		}
	}
	sum.OracleFailures = append(sum.OracleFailures, checkDelivered(fmt.Sprintf("free-running rep %d (stop under traffic)", rep), append(late, sends...), lateGot, false)...)
	sum.Reps++
}

// scenarioB: a malformed frame arrives while both directions carry traffic; the receive
// service tears the connection down (Error -> Stop -> cleanup) concurrently with Sends.
func scenarioB(R, S0 *node, rep int, sum *raceSummary) {
	l := newFlink(S0, R, 0, newAbort())
	c := K.MaxDataChunkSize
	sends := []fsend{{l.sc, R, l.info, tX, mkMessage(1, c+2)}, {l.sc, R, l.info, tY, mkMessage(2, 100)}, {l.rc, S0, l.rinfo, tX, mkMessage(3, c+7)}, {l.rc, S0, l.rinfo, tX, mkMessage(4, 33)}, {l.rc, S0, l.rinfo, tY, mkMessage(5, 50)}}
	var wg sync.WaitGroup
	for _, s := range sends {
		s := s
		wg.Add(1)
		go func() { defer wg.Done(); s.from.Send(s.topic, s.msg.payload) }()
	}
	bad := [][]byte{frame([]byte{0xFF, 0xFF, 0xFF}), packetFrame(lib.Topic_INVALID, true, []byte("zz")), {0xFF, 0xFF, 0xFF, 0xFF}}
	l.sconn.Write(bad[rep%len(bad)])
	wg.Wait()
	time.Sleep(5 * time.Millisecond)
	l.sc.Stop()
	l.rc.Stop()
	got := map[*node][]delivered{}
	for _, nd := range []*node{R, S0} {
		for t := lib.Topic(0); t <= K.HeartbeatTopic; t++ {
			for len(nd.p.Inbox(t)) > 0 {
				m := <-nd.p.Inbox(t)
				got[nd] = append(got[nd], delivered{t, m.Sender, m.Message})
			}
		}
	}
	sum.OracleFailures = append(sum.OracleFailures, checkDelivered(fmt.Sprintf("malformed-close rep %d", rep), sends, got, false)...)
	sum.RepsMalformed++
}

// scenarioC: the production path end to end through exported API only: AddPeer (real
// handshake, encrypted connection, all three services), PeerSet.SendTo (a goroutine per
// send), the heartbeat exchange, P2P.Stop.
func scenarioC(n1, n2 *node, rep int, sum *raceSummary) {
	c1, c2 := net.Pipe()
	var wg sync.WaitGroup
	var e1, e2 lib.ErrorI
	wg.Add(2)
	go func() {
		defer wg.Done()
		e1 = n1.p.AddPeer(c2, &lib.PeerInfo{Address: &lib.PeerAddress{PublicKey: n2.pub, NetAddress: "pipe2", PeerMeta: &lib.PeerMeta{ChainId: 1}}}, false, true)
	}()
	go func() {
		defer wg.Done()
		e2 = n2.p.AddPeer(c1, &lib.PeerInfo{Address: &lib.PeerAddress{PublicKey: n1.pub, NetAddress: "pipe1", PeerMeta: &lib.PeerMeta{ChainId: 1}}}, false, true)
	}()
	wg.Wait()
	if e1 != nil || e2 != nil {
		fmt.Fprintf(os.Stderr, "c18 race child: real-path AddPeer failed: %v / %v (scenario skipped)\n", e1, e2)
		return
	}
	chunk := K.MaxDataChunkSize
	ab := newAbort()
	type appSend struct {
		from, to *node
		topic    lib.Topic
		wire     []byte
	}
	var sends []appSend
	mk := func(from, to *node, topic lib.Topic, id, n int) {
		m := &p2p.Packet{Bytes: mkMessage(id, n).payload} // any proto message will do as application payload
		bz, _ := lib.Marshal(m)
		sends = append(sends, appSend{from, to, topic, bz})
		if err := from.p.SendTo(to.pub, topic, m); err != nil {
			// e.g. the peer was already dropped by canopy's own 3 s heartbeat timeout on a slow machine
			ab.fire(err)
		}
	}
	mk(n1, n2, tX, 1, chunk+10)
	mk(n1, n2, tX, 2, 77)
	mk(n1, n2, tY, 3, 2*chunk+1)
	mk(n2, n1, tX, 4, chunk+1)
	mk(n2, n1, lib.Topic_CONSENSUS, 5, 100)
	mk(n1, n2, lib.Topic_CONSENSUS, 6, 500)
	var mu sync.Mutex
	var cwg sync.WaitGroup
	realTimeouts := 0
	got := map[*node]*[]delivered{n1: {}, n2: {}}
	need := map[*node]map[lib.Topic]int{n1: {}, n2: {}}
	for _, s := range sends {
		need[s.to][s.topic]++
	}
	for nd, m := range need {
		for t, n := range m {
			cwg.Add(1)
			go collectFor(20*time.Second, nd, t, n, got[nd], &mu, &cwg, &realTimeouts, ab)
		}
	}
	cwg.Wait()
	if ab.fired() || realTimeouts > 0 {
		sum.RepsDisturbed++
		sum.DisturbedBy = "real path: " + ab.why
	}
	used := make([]bool, len(sends))
	for nd, ds := range got {
		for _, d := range *ds {
			ok := false
			for i, s := range sends {
				if !used[i] && s.to == nd && s.topic == d.topic && bytes.Equal(s.wire, d.msg) && d.sender != nil && d.sender.Address != nil && bytes.Equal(d.sender.Address.PublicKey, s.from.pub) {
					used[i], ok = true, true
					break
				}
			}
			if !ok {
				sum.OracleFailures = append(sum.OracleFailures, fmt.Sprintf("real-path rep %d: topic %d holds %d bytes that are not a sent message of that topic and peer", rep, d.topic, len(d.msg)))
			}
		}
	}
	sum.Messages += len(sends)
	time.Sleep(K.HeartbeatInterval + 200*time.Millisecond)
	n1.p.Stop()
	n2.p.Stop()
	time.Sleep(10 * time.Millisecond)
	drainInboxes(n1, n2)
	sum.RepsRealPath++
}

func raceChildMain() {
	fs := flag.NewFlagSet("racechild", flag.ExitOnError)
	_ = fs.Bool("racechild", true, "")
	seconds := fs.Float64("seconds", 20, "time budget")
	maxReps := fs.Int("maxreps", 1000000, "")
	realReps := fs.Int("realreps", 2, "repetitions of the real handshake path")
	_ = fs.Parse(os.Args[1:])
	initCommon()
	tuneGC(384)
	defer os.RemoveAll(scratchDir)
	start := time.Now()
	sum := &raceSummary{RaceInstrumented: raceEnabled}
	// all nodes are created before any traffic (p2p.New writes package-level timeouts)
	R, S0, S1 := newNode(), newNode(), newNode()
	var realNodes []*node
	for i := 0; i < 2**realReps; i++ {
		realNodes = append(realNodes, newNode())
	}
	budget := time.Duration(*seconds * float64(time.Second))
	left := func() time.Duration { return budget - time.Since(start) }
	for rep := 0; rep < *maxReps && left() > 3*time.Second; rep++ {
		hb := rep%8 == 0 && left() > 5*time.Second
		scenarioA(R, S0, S1, rep, hb, sum)
		drainInboxes(R, S0, S1)
		if rep%2 == 0 {
			scenarioB(R, S0, rep/2, sum)
			drainInboxes(R, S0, S1)
		}
		if rep%6 == 1 && sum.RepsRealPath < *realReps && left() > 6*time.Second {
			i := sum.RepsRealPath
			scenarioC(realNodes[2*i], realNodes[2*i+1], rep, sum)
		}
	}
	sum.Seconds = time.Since(start).Seconds()
	sum.Stale = stale
	bz, _ := json.Marshal(sum)
	os.RemoveAll(scratchDir)
	fmt.Println("RACE-SUMMARY " + string(bz))
}

// ---------------------------------------------------------------------------------------
// parent

type raceResult struct {
	Status      string       `json:"status"`
	BuildS      float64      `json:"build_seconds"`
	Summary     *raceSummary `json:"summary,omitempty"`
	RaceReports int          `json:"race_reports"`
	Signatures  []string     `json:"race_signatures,omitempty"`
	reports     map[string]string
}

type raceJob struct {
	done   chan struct{}
	err    string
	bin    string
	buildS float64
}

func startRaceBuild(r *mc.Run) *raceJob {
	j := &raceJob{done: make(chan struct{})}
	dir := filepath.Join(mc.Root(), "harness")
	j.bin = filepath.Join(dir, "bin", "c18race")
	go func() {
		defer close(j.done)
		t0 := time.Now()
		cmd := exec.Command("go", "build", "-race", "-tags", "verif", "-o", j.bin, "./cmd/c18")
		cmd.Dir = dir
		cmd.Env = append(os.Environ(), "GOFLAGS=-mod=mod", "GOPROXY=off")
		out, err := cmd.CombinedOutput()
		j.buildS = time.Since(t0).Seconds()
		if err != nil {
			j.err = fmt.Sprintf("go build -race failed: %v: %s", err, strings.TrimSpace(string(out)))
		}
	}()
	return j
}

func (j *raceJob) ready() bool {
	select {
	case <-j.done:
		return j.err == ""
	default:
		return false
	}
}

func (j *raceJob) wait() {
	select {
	case <-j.done:
	case <-time.After(4 * time.Minute):
		if j.err == "" {
			j.err = "go build -race did not finish within 4 minutes"
		}
	}
}

func (j *raceJob) runAsync(r *mc.Run, procs int, secs float64) chan raceResult {
	ch := make(chan raceResult, 1)
	real := 2
	if !r.Quick() {
		real = 12
	}
	go func() {
		cmd := exec.Command(j.bin, "-racechild", fmt.Sprintf("-seconds=%g", secs), fmt.Sprintf("-realreps=%d", real))
		cmd.Env = append(os.Environ(), fmt.Sprintf("GOMAXPROCS=%d", procs), "GORACE=halt_on_error=0 history_size=5")
		var stdout, stderr bytes.Buffer
		cmd.Stdout, cmd.Stderr = &stdout, &stderr
		err := cmd.Run()
		res := raceResult{Status: "completed", BuildS: j.buildS, reports: map[string]string{}}
		for _, line := range strings.Split(stdout.String(), "\n") {
			if strings.HasPrefix(line, "RACE-SUMMARY ") {
				var s raceSummary
				if json.Unmarshal([]byte(strings.TrimPrefix(line, "RACE-SUMMARY ")), &s) == nil {
					res.Summary = &s
				}
			}
		}
		if res.Summary == nil {
			res.Status = fmt.Sprintf("child did not finish: %v: %s", err, tail(stderr.String(), 1500))
		}
		parseRaceReports(stderr.String(), &res)
		ch <- res
	}()
	return ch
}

func tail(s string, n int) string {
	if len(s) > n {
		return "…" + s[len(s)-n:]
	}
	return s
}

var accessRe = regexp.MustCompile(`^(Read|Write|Previous read|Previous write) at 0x[0-9a-f]+ by `)

// parseRaceReports canonicalises every report to the pair of innermost non-runtime functions
// of the two conflicting accesses.
func parseRaceReports(stderr string, res *raceResult) {
	for _, block := range strings.Split(stderr, "==================") {
		if !strings.Contains(block, "WARNING: DATA RACE") {
			continue
		}
		res.RaceReports++
		lines := strings.Split(block, "\n")
		var fns []string
		for i := 0; i < len(lines); i++ {
			if !accessRe.MatchString(lines[i]) {
				continue
			}
			fn := "?"
			for k := i + 1; k < len(lines) && strings.TrimSpace(lines[k]) != ""; k += 2 {
				f := strings.TrimSpace(lines[k])
				if p := strings.LastIndex(f, "("); p > 0 {
					f = f[:p]
				}
				if strings.HasPrefix(f, "runtime.") || strings.HasPrefix(f, "sync.") || strings.HasPrefix(f, "sync/atomic.") || strings.HasPrefix(f, "internal/") {
					continue
				}
				fn = strings.TrimPrefix(f, "github.com/canopy-network/canopy/")
				break
			}
			fns = append(fns, fn)
		}
		sort.Strings(fns)
		sig := "C18:data-race:" + strings.Join(fns, "|")
		if _, ok := res.reports[sig]; !ok {
			res.reports[sig] = strings.TrimSpace(block)
			res.Signatures = append(res.Signatures, sig)
		}
	}
	sort.Strings(res.Signatures)
}

func reportRace(r *mc.Run, rr raceResult) {
	if rr.Summary != nil {
		s := rr.Summary
		fmt.Printf("race pass (-race build %.0fs, free-running, real send/receive/heartbeat services): %d repetitions (%d with heartbeat exchange, %d malformed-close under traffic, %d real-handshake path), %d messages checked, %d race reports, %d timeouts, %.1fs\n",
			rr.BuildS, s.Reps, s.RepsHeartbeat, s.RepsMalformed, s.RepsRealPath, s.Messages, rr.RaceReports, s.Timeouts, s.Seconds)
		if !s.RaceInstrumented {
			harnessError("the race child was not built with -race")
		}
		if s.Timeouts > 0 {
			r.Note("race pass: %d inbox readers gave up after 90 s (not a verdict)", s.Timeouts)
		}
		seen := map[string]bool{}
		for _, f := range s.OracleFailures {
			if !seen[f] {
				seen[f] = true
				// while a connection is being torn down by another goroutine the known
				// cleanup/handlePacket race can deliver the tail of a message (deterministic
				// twin: sequential case stop-during-receive); anything else is a separate class
				sig := "C18:free-running:foreign-or-lost-message"
				if strings.Contains(f, "(stop under traffic)") || strings.Contains(f, "malformed-close") {
					sig = "C18:free-running:partial-delivery-during-teardown"
				}
				r.Violation(sig, "free-running pass: "+f, replayArt{Kind: "race", Obs: f})
			}
		}
	} else {
		fmt.Printf("race pass: %s\n", rr.Status)
		r.Exhaustive = false
		r.Note("race pass incomplete: %s", rr.Status)
	}
	for _, sig := range rr.Signatures {
		rep := rr.reports[sig]
		if !strings.Contains(rep, "canopy-network/canopy/") && !strings.Contains(rep, "/repo/") {
			harnessError("data race inside the harness itself:\n%s", rep)
		}
		if len(rep) > 6000 {
			rep = rep[:6000] + "\n…"
		}
		r.Violation(sig, "the race detector reported a data race in the free-running pass:\n"+rep, replayArt{Kind: "race", Obs: rep})
	}
}
