// C18 — multiplexed peer messaging delivers whole messages on the right topic.
//
// Stateless model checking of the real p2p.MultiConn under a controlled scheduler
// (choice-sequence DFS, mc.ExploreChoices):
//
//   - sender goroutines call the real MultiConn.Send; they park at the two verif scheduling
//     points (before Stream.mu.Lock in queueSends, before every packet enqueue in queueSend);
//     the explorer decides which parked sender runs next. A sender parked before the stream
//     lock is enabled iff a TryLock probe of the real mutex succeeds.
//   - there is no free-running send service: the explorer performs the loop body of
//     startSendService itself (take the head of ONE topic queue, real sendPacketWithTiming:
//     wire-encode + write), so Go's select becomes an enumerated choice.
//   - every packet goes through the real framing into an in-memory connection, the REAL
//     startReceiveService goroutine of the receiving MultiConn, handlePacket and the inbox.
//   - oracle per execution: what the receiver's inboxes hold = what was handed to Send
//     (topic, bytes, authenticated sender), see world.judge.
//
// Sequential families: all sizes around the packet boundary on every topic, the message
// limit +-, and an enumeration of over-limit / undefined-topic / malformed frames.
//
// The "no data race" clause is decided by a separate free-running pass built with -race
// (race.go), run as a child process.
package main

import (
	"encoding/json"
	"flag"
	"fmt"
	"os"
	"runtime"
	"runtime/debug"
	"runtime/pprof"
	"sort"
	"strings"
	"sync"
	"sync/atomic"
	"time"

	"github.com/canopy-network/canopy/lib"
	"github.com/canopy-network/canopy/p2p"

	"verifharness/mc"
)

// ---------------------------------------------------------------------------------------
// configurations

type sendSpec struct {
	Link  int       `json:"link"`
	Topic lib.Topic `json:"topic"`
	Size  int       `json:"size"`
}

type config struct {
	Name        string       `json:"name"`
	Links       int          `json:"links"`
	Threads     [][]sendSpec `json:"threads"`
	Interleaved bool         `json:"interleaved"`   // drain steps interleaved with the senders' steps
	Fixed       bool         `json:"fixed_enqueue"` // senders run one after the other (no choice); only drain orders are enumerated
	MaxDev      int          `json:"max_dev"`       // -1 unbounded
}

const (
	tX = lib.Topic_BLOCK
	tY = lib.Topic_TX
)

// size of a message of k packets: "exact" fills the last packet completely (EOF packet is a
// full-size frame), "min" puts a single byte into the last packet, "mid" half a packet.
func sz(k int, variant string) int {
	c := K.MaxDataChunkSize
	switch variant {
	case "exact":
		return k * c
	case "min":
		return (k-1)*c + 1
	}
	return (k-1)*c + c/2
}

func buildConfigs(quick bool) (cfgs []*config) {
	variants := []string{"exact", "min", "mid"}
	n := 0
	v := func() string { n++; return variants[n%3] }
	add := func(c *config) {
		if c.MaxDev == 0 {
			c.MaxDev = -1 // unbounded unless stated
		}
		cfgs = append(cfgs, c)
	}
	one := func(link int, t lib.Topic, k int) []sendSpec { return []sendSpec{{link, t, sz(k, v())}} }
	g1 := func(pa, pb, pc int) { // one connection, A and B collide on topic X, C uses topic Y
		add(&config{Name: fmt.Sprintf("G1:X%d+X%d|Y%d", pa, pb, pc), Links: 1, Threads: [][]sendSpec{one(0, tX, pa), one(0, tX, pb), one(0, tY, pc)}})
	}
	g2 := func(p ...int) { // three senders on one topic
		add(&config{Name: fmt.Sprintf("G2:X%d+X%d+X%d", p[0], p[1], p[2]), Links: 1, Threads: [][]sendSpec{one(0, tX, p[0]), one(0, tX, p[1]), one(0, tX, p[2])}})
	}
	g3 := func(pa, pb int) { // two authenticated peers send on the same topic into one receiver node
		add(&config{Name: fmt.Sprintf("G3:peer0.X%d|peer1.X%d", pa, pb), Links: 2, Threads: [][]sendSpec{one(0, tX, pa), one(1, tX, pb)}})
	}
	// quick tier: in this order (the deadline cuts the tail); thorough: everything
	g2(1, 1, 1)
	g2(2, 1, 2)
	g2(2, 2, 2)
	g2(3, 2, 1)
	g2(1, 3, 3)
	// G4: one goroutine sends several times (program-order FIFO) against a colliding sender
	add(&config{Name: "G4:X2;X1+X2", Links: 1, Threads: [][]sendSpec{{{0, tX, sz(2, "min")}, {0, tX, sz(1, "exact")}}, one(0, tX, 2)}})
	add(&config{Name: "G4:X1;Y1;X2+X2", Links: 1, Threads: [][]sendSpec{{{0, tX, sz(1, "min")}, {0, tY, sz(1, "exact")}, {0, tX, sz(2, "mid")}}, one(0, tX, 2)}})
	// G5: three topics at once; the senders share nothing, so they enqueue one after the other
	// and only the send service's choices (90 drain orders) are enumerated
	add(&config{Name: "G5:C2|X2|Y2(drain orders)", Links: 1, Fixed: true, Threads: [][]sendSpec{one(0, lib.Topic_CONSENSUS, 2), one(0, tX, 2), one(0, tY, 2)}})
	// I: send-service steps interleaved with the senders' steps
	add(&config{Name: "I:X1+X1", Links: 1, Interleaved: true, Threads: [][]sendSpec{one(0, tX, 1), one(0, tX, 1)}})
	g3(1, 1)
	g3(1, 2)
	g3(2, 1)
	g3(2, 2)
	g1(2, 2, 1)
	g1(1, 2, 1)
	g1(3, 2, 1)
	g1(1, 1, 2)
	add(&config{Name: "G3b:peer0.X1|peer1.X2+peer1.X1", Links: 2, Threads: [][]sendSpec{one(0, tX, 1), one(1, tX, 2), one(1, tX, 1)}})
	g3(2, 3)
	idev := 2
	if !quick {
		idev = 4
	}
	add(&config{Name: "I:X2+X2|Y1", Links: 1, Interleaved: true, MaxDev: idev, Threads: [][]sendSpec{one(0, tX, 2), one(0, tX, 2), one(0, tY, 1)}})
	add(&config{Name: "I:X2+X1", Links: 1, Interleaved: true, Threads: [][]sendSpec{one(0, tX, 2), one(0, tX, 1)}})
	g1(1, 1, 1)
	g1(2, 1, 1)
	g1(1, 3, 1)
	g1(3, 1, 1)
	g1(2, 3, 1)
	g1(3, 3, 1)
	g3(3, 2)
	g3(1, 3)
	g3(3, 1)
	if quick {
		return
	}
	g3(3, 3)
	for pa := 1; pa <= 3; pa++ {
		for pb := 1; pb <= 3; pb++ {
			if pa+pb > 2 {
				g1(pa, pb, 2)
			}
		}
	}
	add(&config{Name: "G3b:peer0.X2|peer1.X2+peer1.X1", Links: 2, Threads: [][]sendSpec{one(0, tX, 2), one(1, tX, 2), one(1, tX, 1)}})
	add(&config{Name: "G4:X1;Y2;X2+X2", Links: 1, Threads: [][]sendSpec{{{0, tX, sz(1, "min")}, {0, tY, sz(2, "exact")}, {0, tX, sz(2, "mid")}}, one(0, tX, 2)}})
	add(&config{Name: "G5:C1|X1|Y2", Links: 1, Threads: [][]sendSpec{one(0, lib.Topic_CONSENSUS, 1), one(0, tX, 1), one(0, tY, 2)}})
	add(&config{Name: "I:X3+X2|Y2", Links: 1, Interleaved: true, MaxDev: 3, Threads: [][]sendSpec{one(0, tX, 3), one(0, tX, 2), one(0, tY, 2)}})
	add(&config{Name: "I:peer0.X2|peer1.X2", Links: 2, Interleaved: true, MaxDev: 4, Threads: [][]sendSpec{one(0, tX, 2), one(1, tX, 2)}})
	add(&config{Name: "I:X2+X2", Links: 1, Interleaved: true, Threads: [][]sendSpec{one(0, tX, 2), one(0, tX, 2)}})
	return
}

// ---------------------------------------------------------------------------------------
// one execution = one schedule

type chooser interface{ Choose(n int) int }

// replayChooser replays a recorded choice sequence (0 beyond its end) and records arities.
type replayChooser struct {
	prefix []int
	trace  []int
	arity  []int
}

func (c *replayChooser) Choose(n int) int {
	i, v := len(c.trace), 0
	if i < len(c.prefix) {
		v = c.prefix[i]
		if v >= n {
			panic(fmt.Sprintf("c18 harness: replay divergence at point %d: scripted %d, arity %d (undetected nondeterminism)", i, v, n))
		}
	}
	c.trace = append(c.trace, v)
	c.arity = append(c.arity, n)
	return v
}

type execResult struct {
	outcome
	steps   []string
	nSteps  int
	arities []int
}

func (cfg *config) ops() (per [][]*sendOp, all []*sendOp) {
	id := 0
	for _, th := range cfg.Threads {
		var l []*sendOp
		for _, s := range th {
			id++
			op := &sendOp{Link: s.Link, Topic: s.Topic, Size: s.Size, msg: mkMessage(id, s.Size)}
			l = append(l, op)
			all = append(all, op)
		}
		per = append(per, l)
	}
	return
}

// runSchedule executes one schedule of cfg on the real code; every scheduling decision is
// taken from c.
func runSchedule(w *world, cfg *config, c chooser, wantSteps bool) (res execResult) {
	per, all := cfg.ops()
	w.free = false
	w.setup(cfg.Links, per)
	defer w.teardown()
	w.startThreads()
	lastT := -1
	lastQ := qid{-1, 0}
	logf := func(f string, a ...any) {
		res.nSteps++
		if wantSteps {
			res.steps = append(res.steps, fmt.Sprintf(f, a...))
		}
	}
	runThread := func(t *thread) {
		switch t.at {
		case atLock:
			logf("S%d passes the stream-lock point of link %d topic %d (m%d, lock free)", t.id, t.link, t.topic, t.ops[t.cur].msg.id)
		case atEnq:
			logf("S%d enqueues packet m%d.%d on link %d topic %d", t.id, t.ops[t.cur].msg.id, t.pktIdx, t.link, t.topic)
		}
		w.step(t)
		lastT = t.id
	}
	runDrain := func(q qid) {
		w.drain(q)
		logf("send service step: link %d topic %d -> wire %s", q.link, q.topic, w.wire[len(w.wire)-1])
		lastQ = q
	}
	for {
		var ths []*thread
		for _, t := range w.threads { // default answer 0 = keep running the thread that ran last
			if t.id == lastT && w.enabled(t) {
				ths = append(ths, t)
			}
		}
		for _, t := range w.threads {
			if t.id != lastT && w.enabled(t) {
				ths = append(ths, t)
			}
		}
		var qs []qid
		if cfg.Interleaved {
			qs = w.nonEmptyQueues()
		}
		n := len(ths) + len(qs)
		if n == 0 {
			break
		}
		i := 0
		if n > 1 && !cfg.Fixed {
			i = c.Choose(n)
		}
		if i < len(ths) {
			runThread(ths[i])
		} else {
			runDrain(qs[i-len(ths)])
		}
	}
	blocked := false
	for _, t := range w.threads {
		if t.at != atDone {
			blocked = true
		}
	}
	if blocked {
		res.findings = append(res.findings, finding{"C18:senders-blocked-forever", "no sender can make progress although not all Send calls returned (a stream lock is never released)"})
		// release the goroutines so that the world can be torn down: nothing to do, they stay parked on their resume channel (leaked)
	}
	// send service: every order of draining the non-empty topic queues
	for {
		qs := w.nonEmptyQueues()
		if len(qs) == 0 {
			break
		}
		// default answer 0 = keep draining the queue that was drained last
		sort.SliceStable(qs, func(a, b int) bool { return qs[a] == lastQ && qs[b] != lastQ })
		i := 0
		if len(qs) > 1 {
			i = c.Choose(len(qs))
		}
		runDrain(qs[i])
	}
	got := w.readInboxes()
	o := w.judge(all, got, func(op *sendOp) bool { return true })
	for i, l := range w.links {
		if len(l.rErr)+len(l.sErr) > 0 || l.rconn.rd.isClosed() {
			o.findings = append(o.findings, finding{"C18:valid-traffic-closed-connection", fmt.Sprintf("link %d carried only well-formed traffic below the size limit but errored/closed: receiver errors %v sender errors %v", i, l.rErr, l.sErr)})
		}
		for t := lib.Topic(0); t <= K.HeartbeatTopic; t++ {
			if n := l.rc.VerifC18AssemblerLen(t); n > 0 {
				o.obs += fmt.Sprintf(" residual(L%d,T%d)=%d", i, t, n)
			}
		}
	}
	for _, op := range all {
		if !op.ok && !blocked {
			o.findings = append(o.findings, finding{"C18:send-refused", fmt.Sprintf("Send of m%d on link %d topic %d returned false on an open connection", op.msg.id, op.Link, op.Topic)})
		}
	}
	o.findings = append(res.findings, o.findings...)
	res.outcome = o
	return
}

// ---------------------------------------------------------------------------------------
// exploration of one configuration

type replayArt struct {
	Kind    string   `json:"kind"` // "schedule" | "sequential"
	Config  *config  `json:"config,omitempty"`
	Choices []int    `json:"choices,omitempty"`
	Case    string   `json:"case,omitempty"`
	Steps   []string `json:"steps,omitempty"`
	Obs     string   `json:"observation,omitempty"`
}

type cfgStats struct {
	Name           string `json:"config"`
	Executions     int64  `json:"executions"`
	ChoicePoints   int64  `json:"choice_points"`
	Steps          int64  `json:"steps"`
	MaxPoints      int    `json:"max_choice_points"`
	Bound          string `json:"deviation_bound"`
	Wires          int    `json:"distinct_wire_sequences"`
	Deliveries     int    `json:"distinct_delivery_orders"`
	Complete       bool   `json:"complete"`
	Failing        int64  `json:"failing_executions"`
	TwinExecutions int64  `json:"enqueue_first_twin_executions,omitempty"`
	TwinCheck      string `json:"interleaved_vs_enqueue_first,omitempty"`
	TwinRefuted    bool   `json:"reduction_argument_refuted,omitempty"`
	Seconds        float64
}

// tuneGC: every packet is ~1 MB and is freshly allocated about nine times by the code under
// test. With the default pacer (tiny live heap) a collection runs every few packets, and on a
// VM first-touch page faults are very expensive; a fixed heap that is faulted in once and then
// recycled is more than ten times faster.
func tuneGC(limitMiB int64) {
	debug.SetGCPercent(-1)
	debug.SetMemoryLimit(limitMiB << 20)
}

func harnessError(format string, a ...any) {
	fmt.Fprintf(os.Stderr, "HARNESS-ERROR C18: "+format+"\n", a...)
	os.Exit(3)
}

var worldPool chan *world

// exploreConfig enumerates every schedule of cfg (choice-sequence DFS) on one world.
func exploreConfig(r *mc.Run, w *world, cfg *config, stop func() bool) cfgStats {
	start := time.Now()
	st := cfgStats{Name: cfg.Name, Bound: "unbounded"}
	if cfg.MaxDev >= 0 {
		st.Bound = fmt.Sprint(cfg.MaxDev)
	}
	// determinism self-check: the default schedule twice, identical observations
	a := runSchedule(w, cfg, &replayChooser{}, false)
	b := runSchedule(w, cfg, &replayChooser{}, false)
	if a.obs != b.obs {
		harnessError("config %s: the same schedule gave two different observations\n  %s\n  %s", cfg.Name, a.obs, b.obs)
	}
	wires, dels := map[string]bool{}, map[string]bool{}
	sampled := false
	cs := mc.ExploreChoices(func(c *mc.Chooser) {
		res := runSchedule(w, cfg, c, false)
		st.ChoicePoints += int64(len(c.Trace))
		st.Steps += int64(res.nSteps)
		wires[res.wire] = true
		dels[res.delivery] = true
		if len(res.findings) > 0 {
			st.Failing++
			confirmAndReport(r, w, cfg, append([]int{}, c.Trace...), res)
		} else if !sampled && len(c.Trace) > 2 && c.Dev >= 2 {
			sampled = true
			rr := runSchedule(w, cfg, &replayChooser{prefix: append([]int{}, c.Trace...)}, true)
			r.AddSample(map[string]any{"config": cfg.Name, "choices": c.Trace, "steps": rr.steps, "delivery": rr.delivery, "verdict": "ok"})
		}
	}, cfg.MaxDev, stop)
	st.Executions, st.MaxPoints, st.Complete = cs.Executions, cs.MaxPoints, cs.Complete && !stop()
	st.Wires, st.Deliveries = len(wires), len(dels)
	if cfg.Interleaved && st.Complete {
		// the reduction argument behind the enqueue-first configurations, checked: every wire
		// sequence seen with the send service interleaved is also produced enqueue-first
		twin := *cfg
		twin.Interleaved, twin.MaxDev = false, -1
		tw := map[string]bool{}
		tcs := mc.ExploreChoices(func(c *mc.Chooser) {
			res := runSchedule(w, &twin, c, false)
			tw[res.wire] = true
			st.TwinExecutions++
		}, -1, stop)
		if tcs.Complete && !stop() {
			missing := 0
			for k := range wires {
				if !tw[k] {
					missing++
				}
			}
			st.TwinCheck = fmt.Sprintf("%d interleaved wire sequences, %d enqueue-first wire sequences, %d of the former not among the latter", len(wires), len(tw), missing)
			if missing > 0 {
				st.TwinRefuted = true
			}
		}
	}
	st.Seconds = time.Since(start).Seconds()
	return st
}

var (
	confirmedMu sync.Mutex
	confirmed   = map[string]bool{}
)

// confirmAndReport replays a failing schedule 4 more times; identical observation and
// findings every time, otherwise the harness (not canopy) is at fault.
func confirmAndReport(r *mc.Run, w *world, cfg *config, trace []int, res execResult) {
	fresh := false
	confirmedMu.Lock()
	for _, f := range res.findings {
		if !confirmed[f.sig] {
			confirmed[f.sig] = true
			fresh = true
		}
	}
	confirmedMu.Unlock()
	if !fresh { // this class is already confirmed and reported with a concrete schedule
		for _, f := range res.findings {
			r.Violation(f.sig, "", nil)
		}
		return
	}
	var steps []string
	for i := 0; i < 4; i++ {
		rr := runSchedule(w, cfg, &replayChooser{prefix: trace}, true)
		if rr.obs != res.obs || len(rr.findings) != len(res.findings) {
			harnessError("config %s schedule %v: failing execution does not reproduce identically\n  first : %s\n  replay: %s", cfg.Name, trace, res.obs, rr.obs)
		}
		steps = rr.steps
	}
	seen := map[string]bool{}
	for _, f := range res.findings {
		if seen[f.sig] {
			continue
		}
		seen[f.sig] = true
		r.Violation(f.sig, fmt.Sprintf("config %s, schedule %v (reproduced 5/5): %s\n    steps: %s\n    observation: %s", cfg.Name, trace, f.what, strings.Join(steps, "; "), res.obs),
			replayArt{Kind: "schedule", Config: cfg, Choices: trace, Steps: steps, Obs: res.obs})
	}
}

// ---------------------------------------------------------------------------------------

func initCommon() {
	K = p2p.VerifC18GetConsts()
	var err error
	scratchDir, err = os.MkdirTemp("", "c18-")
	if err != nil {
		panic(err)
	}
}

var (
	onlyFlag   = flag.String("only", "", "run only schedule configurations whose name contains this (experiments)")
	noRaceFlag = flag.Bool("norace", false, "skip the -race pass (experiments)")
	noSeqFlag  = flag.Bool("noseq", false, "skip the sequential families (experiments)")
)

func main() {
	for _, a := range os.Args[1:] {
		if a == "-racechild" || a == "--racechild" {
			raceChildMain()
			return
		}
	}
	if os.Getenv("C18_SR_ONLY") != "" {
		K = p2p.VerifC18GetConsts()
		c, f, o := runSessionReplaceCase(3, 0.5)
		fmt.Println("SR:", c, f, o)
		c, f, o = runBulkUnderHeartbeats(4, 3)
		fmt.Println("BULK:", c, f, o)
		return
	}
	t0 := time.Now()
	r := mc.Start("C18", "model_checking", 85*time.Second, 27*time.Minute)
	budget := 85 * time.Second
	if !r.Quick() {
		budget = 27 * time.Minute
	}
	if f := flag.Lookup("budget"); f != nil {
		if d, err := time.ParseDuration(f.Value.String()); err == nil && d > 0 {
			budget = d
		}
	}
	deadline := t0.Add(budget)
	initCommon()
	tuneGC(512)
	defer os.RemoveAll(scratchDir)
	r.Assumptions = []string{
		"Go's select in startSendService is replaced by an explorer choice among the non-empty topic queues; every case of that select calls the same function (sendPacketWithTiming), which the explorer calls too",
		"Go channels are FIFO and the runtime's mutex/channel implementation is correct; the connection is an in-memory byte pipe (ordered, lossless) — TCP/encryption are not part of this check (encryption: C17)",
		"scheduling points are the two verif hooks (before Stream.mu.Lock in queueSends, before each enqueue in queueSend): code between two points runs atomically w.r.t. other senders; finer-grained interleavings and memory-model effects are left to the -race pass",
		"enqueue-first configurations drain after all Send calls returned: drain steps commute with enqueues on other queues and with later enqueues on the same FIFO queue, so every wire sequence of an interleaved run is also produced by an enqueue-first run (checked experimentally by the I: configurations)",
		"no inbox overflow (<= 1000 pending messages) and no send-queue timeout (<= 1000 pending packets) occur in the explored configurations",
		"the only clock is a 120 s hang watchdog that aborts the harness (never decides a verdict)",
	}
	if r.Replay != "" {
		doReplay(r)
		return
	}
	if pf := os.Getenv("C18_PROF"); pf != "" {
		f, _ := os.Create(pf)
		pprof.StartCPUProfile(f)
		defer pprof.StopCPUProfile()
		time.AfterFunc(40*time.Second, func() { pprof.StopCPUProfile(); f.Close() })
	}
	workers := runtime.NumCPU()
	if workers > 16 {
		workers = 16
	}
	// performance heuristic only: on a machine that is already oversubscribed by other
	// processes more workers make every GC pause and goroutine hand-off slower
	if bz, err := os.ReadFile("/proc/loadavg"); err == nil {
		var load float64
		fmt.Sscan(string(bz), &load)
		if load > float64(workers) {
			workers = int(float64(workers*workers) / load / 2)
			if workers < 2 {
				workers = 2
			}
			r.Note("load average %.0f at start: exploring with %d workers", load, workers)
		}
	}
	if v := os.Getenv("C18_WORKERS"); v != "" {
		fmt.Sscan(v, &workers)
	}
	raceProcs := 4
	worldPool = make(chan *world, workers+1)
	seqWorld := newWorld()
	// the -race child is built in the background while the exploration runs
	var rj *raceJob
	if *noRaceFlag {
		rj = &raceJob{done: make(chan struct{}), err: "-norace"}
		close(rj.done)
	} else {
		rj = startRaceBuild(r)
	}
	var raceDone chan raceResult
	raceStarted := make(chan bool, 1)
	go func() { // start the race pass as soon as its binary exists
		<-rj.done
		secs := 25.0
		if !r.Quick() {
			secs = 300
		}
		if left := time.Until(deadline).Seconds() - 4; left < secs {
			secs = left
		}
		if rj.err == "" && secs >= 6 {
			raceDone = rj.runAsync(r, raceProcs, secs)
			raceStarted <- true
		} else {
			if rj.err == "" {
				rj.err = "the -race binary was ready too late (less than 10 s of budget left)"
			}
			raceStarted <- false
		}
	}()

	fmt.Printf("constants read from p2p: maxDataChunkSize=%d maxPacketSize=%d maxMessageSize=%d sendQueueCap=%d inboxCap=%d\n",
		K.MaxDataChunkSize, K.MaxPacketSize, K.MaxMessageSize, K.SendQueueCap, K.InboxCap)

	cov := map[string]any{}
	// 1. sequential: sizes x topics, malformed / undefined-topic frames, stop during receive
	// (on its own world, concurrently with the schedule exploration)
	seq := &seqStats{outcomes: map[string]int{}}
	seqDone := make(chan struct{})
	go func() {
		defer close(seqDone)
		if !*noSeqFlag {
			seq = runSequentialSmall(r, seqWorld)
		}
		fmt.Printf("sequential (%.1fs): %d size x topic cases, %d malformed/undefined-topic/stop-during-receive cases, outcome classes: %s\n", time.Since(t0).Seconds(), seq.sizeCases, seq.malformedCases, strings.Join(seq.outcomeList(), ", "))
	}()

	// 2. schedules: configurations in parallel, each explored sequentially on its own world.
	// The exploration stops early enough for the size-limit cases and the race pass to finish.
	exploreUntil := t0.Add(budget * 65 / 100)
	stopExplore := func() bool { return r.Expired() || time.Now().After(exploreUntil) }
	cfgs := buildConfigs(r.Quick())
	if *onlyFlag != "" {
		var f []*config
		for _, c := range cfgs {
			if strings.Contains(c.Name, *onlyFlag) {
				f = append(f, c)
			}
		}
		cfgs = f
	}
	stats := make([]*cfgStats, len(cfgs))
	var nWorlds int32
	mc.ParallelFor(len(cfgs), workers, stopExplore, func(i int) {
		var w *world
		select {
		case w = <-worldPool:
		default:
			atomic.AddInt32(&nWorlds, 1)
			w = newWorld()
		}
		st := exploreConfig(r, w, cfgs[i], stopExplore)
		stats[i] = &st
		worldPool <- w
	})
	var done []cfgStats
	var totExec, totPoints, totSteps int64
	wiresTotal, delsTotal, maxPoints := 0, 0, 0
	for i, st := range stats {
		if st == nil {
			r.Exhaustive = false
			r.Note("schedule configuration %s not started (deadline)", cfgs[i].Name)
			continue
		}
		done = append(done, *st)
		totExec += st.Executions
		totPoints += st.ChoicePoints
		totSteps += st.Steps
		wiresTotal += st.Wires
		delsTotal += st.Deliveries
		if st.MaxPoints > maxPoints {
			maxPoints = st.MaxPoints
		}
		if !st.Complete {
			r.Exhaustive = false
		}
		if st.TwinRefuted {
			r.Exhaustive = false
			r.Note("config %s: REDUCTION ARGUMENT REFUTED: %s", st.Name, st.TwinCheck)
		}
		fmt.Printf("config %-34s executions=%-6d choice_points=%-7d steps=%-8d deviation_bound=%-9s distinct: wire sequences=%-5d delivery orders=%-4d complete=%v %.1fs\n",
			st.Name, st.Executions, st.ChoicePoints, st.Steps, st.Bound, st.Wires, st.Deliveries, st.Complete, st.Seconds)
	}

	<-seqDone

	// 3. sequential: the message size limit
	var lim []string
	if !*noSeqFlag && !r.Expired() {
		tl := time.Now()
		// 256 MB messages: payload, reassembly buffer (while growing) and the delivered copy are alive
		// at once (~1.2 GB). No pacer, no scavenger: the harness collects explicitly every 16 packets
		// so that freed memory (already faulted in) is reused.
		tuneGC(16 << 10)
		lim = runLimitCases(r, seqWorld, deadline)
		fmt.Printf("size limit: %d cases around maxMessageSize=%d (%.1fs): %s\n", len(lim), K.MaxMessageSize, time.Since(tl).Seconds(), strings.Join(lim, "; "))
	} else if !*noSeqFlag {
		r.Note("size-limit cases not run (deadline)")
	}

	// 4. race pass
	var rr raceResult
	started := false
	select {
	case started = <-raceStarted:
	case <-time.After(time.Until(deadline)):
	}
	if started {
		rr = <-raceDone
	} else {
		why := rj.err
		if why == "" {
			why = "go build -race did not finish before the deadline (cold build cache?)"
		}
		rr = raceResult{Status: "not run: " + why}
	}
	reportRace(r, rr)

	cov["states"] = int(totExec) + seq.sizeCases + seq.malformedCases + len(lim)
	cov["transitions"] = totSteps + int64(seq.steps)
	cov["traces_validated_against_impl"] = int(totExec) + seq.sizeCases + seq.malformedCases + len(lim)
	cov["explanation"] = "states = executions (complete schedules of the real MultiConn code, each judged); transitions = scheduling steps executed (sender steps + send-service steps); choice_points = steps at which more than one action was enabled"
	cov["executions"] = totExec
	cov["choice_points"] = totPoints
	cov["distinct_wire_sequences_sum"] = wiresTotal
	cov["distinct_delivery_orders_sum"] = delsTotal
	cov["per_config"] = done
	cov["max_choice_points_in_one_execution"] = maxPoints
	var bounded []string
	for _, st := range done {
		if st.Bound != "unbounded" {
			bounded = append(bounded, fmt.Sprintf("%s: <= %s non-default choices (complete=%v)", st.Name, st.Bound, st.Complete))
		}
	}
	cov["deviation_bound_completed"] = map[string]any{"unbounded": len(done) - len(bounded), "bounded": bounded}
	cov["sequential_size_topic_cases"] = seq.sizeCases
	cov["sequential_malformed_cases"] = seq.malformedCases
	cov["sequential_outcome_classes"] = seq.outcomeList()
	cov["size_limit_cases"] = lim
	cov["race_pass"] = rr
	cov["constants"] = K
	fmt.Printf("schedules: %d configurations, %d executions, %d choice points, %d steps, distinct wire sequences (sum over configs) %d, delivery orders %d\n",
		len(done), totExec, totPoints, totSteps, wiresTotal, delsTotal)
	os.RemoveAll(scratchDir)
	r.Finish(cov)
}

func doReplay(r *mc.Run) {
	var art replayArt
	if err := r.LoadReplay(&art); err != nil {
		fmt.Println("cannot load replay:", err)
		r.Finish(map[string]any{"states": 1, "transitions": 1, "traces_validated_against_impl": 0})
	}
	w := newWorld()
	n := 0
	switch art.Kind {
	case "schedule":
		for i := 0; i < 5; i++ {
			res := runSchedule(w, art.Config, &replayChooser{prefix: art.Choices}, true)
			n = res.nSteps
			if i == 0 {
				for _, s := range res.steps {
					fmt.Println("  ", s)
				}
				fmt.Println("  observation:", res.obs)
			}
			for _, f := range res.findings {
				r.Violation(f.sig, f.what, art)
			}
		}
	case "sequential":
		for i := 0; i < 5; i++ {
			replaySequential(r, w, art.Case)
		}
	case "race":
		fmt.Println("race findings are replayed by running the check again (free-running pass); stacks are in the artefact")
	}
	bz, _ := json.Marshal(art.Config)
	fmt.Printf("replayed %s %s\n", art.Kind, bz)
	os.RemoveAll(scratchDir)
	r.Finish(map[string]any{"states": 1, "transitions": n + 1, "traces_validated_against_impl": 1})
}
