package main

import (
	"bytes"
	"encoding/binary"
	"fmt"
	"net"
	"os"
	"runtime"
	"sort"
	"strings"
	"sync/atomic"
	"time"

	"github.com/canopy-network/canopy/lib"
	"github.com/canopy-network/canopy/lib/crypto"
	"github.com/canopy-network/canopy/p2p"
	"google.golang.org/protobuf/proto"
	"google.golang.org/protobuf/types/known/anypb"

	"verifharness/mc"
)

// Sequential families (no scheduling choice): every size around the packet boundary on every
// topic; frames that are over the limit, carry an undefined topic or are malformed; the
// message size limit itself.

type seqStats struct {
	sizeCases, malformedCases int
	steps                     int // Send calls + send-service steps + raw frames written
	outcomes                  map[string]int
}

func (s *seqStats) outcomeList() []string {
	var l []string
	for k, n := range s.outcomes {
		l = append(l, fmt.Sprintf("%s x%d", k, n))
	}
	sort.Strings(l)
	return l
}

func (w *world) drainAll(link int) {
	for {
		qs := w.nonEmptyQueues()
		n := 0
		for _, q := range qs {
			if q.link == link {
				w.drain(q)
				n++
			}
		}
		if n == 0 {
			return
		}
	}
}

// sendNow calls the real Send on the calling goroutine (hooks do not park in free mode).
func (w *world) sendNow(op *sendOp) {
	w.free = true
	op.ok = w.links[op.Link].sc.Send(op.Topic, op.msg.payload)
	op.ran = true
}

func report(r *mc.Run, name string, fs []finding, obs string) {
	seen := map[string]bool{}
	for _, f := range fs {
		if seen[f.sig] {
			continue
		}
		seen[f.sig] = true
		r.Violation(f.sig, fmt.Sprintf("sequential case %s: %s\n    observation: %s", name, f.what, obs), replayArt{Kind: "sequential", Case: name, Obs: obs})
	}
}

// ---- sizes x topics

func sizeList() []int {
	c := K.MaxDataChunkSize
	return []int{0, 1, c - 1, c, c + 1, 2*c - 1, 2 * c, 2*c + 1, 3*c - 1, 3 * c, 3*c + 1}
}

func runSizeCase(w *world, topic lib.Topic, size int) (string, []finding, string) {
	w.free = true
	w.setup(1, nil)
	defer w.teardown()
	op := &sendOp{Link: 0, Topic: topic, Size: size, msg: mkMessage(1, size)}
	w.sendNow(op)
	w.drainAll(0)
	got := w.readInboxes()
	expect := topic != K.HeartbeatTopic // the heartbeat stream has no application inbox
	o := w.judge([]*sendOp{op}, got, func(*sendOp) bool { return expect })
	if !expect && len(got) > 0 {
		o.findings = append(o.findings, finding{"C18:heartbeat-topic-delivered", "a message sent on the reserved heartbeat topic reached an application inbox"})
	}
	l := w.links[0]
	if len(l.rErr)+len(l.sErr) > 0 || l.rconn.rd.isClosed() {
		o.findings = append(o.findings, finding{"C18:valid-traffic-closed-connection", fmt.Sprintf("a single %d-byte message on topic %d closed the connection: receiver errors %v sender errors %v", size, topic, l.rErr, l.sErr)})
	}
	if !op.ok {
		o.findings = append(o.findings, finding{"C18:send-refused", fmt.Sprintf("Send(%d bytes, topic %d) returned false", size, topic)})
	}
	class := fmt.Sprintf("delivered-whole:%d-packets", packetsOf(size))
	if !expect {
		class = "heartbeat-topic:not-delivered"
	}
	return class, o.findings, o.obs
}

// ---- malformed / undefined-topic frames (written raw into the receiver's connection)

func frame(body []byte) []byte {
	b := make([]byte, 4, 4+len(body))
	binary.BigEndian.PutUint32(b, uint32(len(body)))
	return append(b, body...)
}

func mustMarshal(m proto.Message) []byte {
	b, err := proto.Marshal(m)
	if err != nil {
		panic(err)
	}
	return b
}

func envelopeOf(m proto.Message) []byte {
	a, err := anypb.New(m)
	if err != nil {
		panic(err)
	}
	return mustMarshal(&p2p.Envelope{Payload: a})
}

func packetFrame(topic lib.Topic, eof bool, b []byte) []byte {
	return frame(envelopeOf(&p2p.Packet{StreamId: topic, Eof: eof, Bytes: b}))
}

type rawCase struct {
	kind       string
	class      string // canonical class used in the signature
	frames     [][]byte
	closeAfter bool // the remote closes its end after the frames
	mustClose  bool // the statement requires the connection to be closed
	mayDeliver *delivered
}

func rawCases() (cs []rawCase) {
	be := func(n uint32) []byte { b := make([]byte, 4); binary.BigEndian.PutUint32(b, n); return b }
	validEnv := envelopeOf(&p2p.Packet{StreamId: lib.Topic_CONSENSUS, Eof: true, Bytes: []byte("0123456789abcdef0123456789abcdef")})
	cs = append(cs,
		rawCase{kind: "length-prefix=maxPacketSize+1", class: "oversize-frame", frames: [][]byte{be(uint32(K.MaxPacketSize + 1))}, mustClose: true},
		rawCase{kind: "length-prefix=0xFFFFFFFF", class: "oversize-frame", frames: [][]byte{be(0xFFFFFFFF)}, mustClose: true},
		rawCase{kind: "max-length-frame-of-0xFF", class: "garbage-envelope", frames: [][]byte{frame(bytes.Repeat([]byte{0xFF}, K.MaxPacketSize))}, mustClose: true},
		rawCase{kind: "empty-frame", class: "empty-envelope", frames: [][]byte{frame(nil)}, mustClose: true},
		rawCase{kind: "garbage-3-bytes", class: "garbage-envelope", frames: [][]byte{frame([]byte{0xFF, 0xFF, 0xFF})}, mustClose: true},
		rawCase{kind: "envelope-cut-in-half", class: "garbage-envelope", frames: [][]byte{frame(validEnv[:len(validEnv)/2])}, mustClose: true},
		rawCase{kind: "any-of-unknown-type", class: "unknown-any-type", frames: [][]byte{frame(mustMarshal(&p2p.Envelope{Payload: &anypb.Any{TypeUrl: "type.googleapis.com/types.DoesNotExist", Value: []byte{1, 2, 3}}}))}, mustClose: true},
		rawCase{kind: "envelope-without-payload", class: "empty-envelope", frames: [][]byte{frame(mustMarshal(&p2p.Envelope{}))}, mustClose: true},
		rawCase{kind: "non-packet-message", class: "non-packet-message", frames: [][]byte{frame(envelopeOf(&p2p.PeerBookRequestMessage{}))}, mustClose: true},
		rawCase{kind: "envelope-in-envelope", class: "non-packet-message", frames: [][]byte{frame(envelopeOf(&p2p.Envelope{}))}, mustClose: true},
		rawCase{kind: "packet-any-with-garbage-value", class: "garbage-packet", frames: [][]byte{frame(mustMarshal(&p2p.Envelope{Payload: &anypb.Any{TypeUrl: "type.googleapis.com/types.Packet", Value: []byte{0xFF, 0xFF}}}))}, mustClose: true},
		rawCase{kind: "frame-cut-then-remote-closes", class: "truncated-frame", frames: [][]byte{append(be(100), []byte("0123456789")...)}, closeAfter: true, mustClose: true},
	)
	for _, id := range []int32{7, 50, 98} {
		cs = append(cs, rawCase{kind: fmt.Sprintf("packet-on-undefined-topic-%d", id), class: "undefined-topic:7..98", frames: [][]byte{packetFrame(lib.Topic(id), true, []byte("zzzz"))}, mustClose: true})
	}
	for _, id := range []int32{99, 100, 1 << 20} {
		cs = append(cs, rawCase{kind: fmt.Sprintf("packet-on-undefined-topic-%d", id), class: "undefined-topic:>=99", frames: [][]byte{packetFrame(lib.Topic(id), true, []byte("zzzz"))}, mustClose: true})
	}
	cs = append(cs, rawCase{kind: "packet-on-topic--1", class: "undefined-topic:negative", frames: [][]byte{packetFrame(lib.Topic(-1), true, []byte("zzzz"))}, mustClose: true})
	// multi-packet message on an undefined topic, not terminated
	cs = append(cs, rawCase{kind: "unterminated-packets-on-undefined-topic-50", class: "undefined-topic:7..98", frames: [][]byte{packetFrame(50, false, []byte("aaaa")), packetFrame(50, false, []byte("bbbb"))}, mustClose: true})
	// tolerated traffic (observed, nothing required but "no foreign delivery")
	cs = append(cs, rawCase{kind: "heartbeat-topic-unknown-payload", class: "heartbeat-unknown-payload", frames: [][]byte{packetFrame(K.HeartbeatTopic, true, []byte("zzzz"))}})
	ext := append(mustMarshal(&p2p.Packet{StreamId: lib.Topic_BLOCK_REQUEST, Eof: true, Bytes: []byte("with-unknown-field")}), 0x78, 0x01) // field 15 varint 1
	cs = append(cs, rawCase{kind: "packet-with-unknown-proto-field", class: "unknown-proto-field", frames: [][]byte{frame(mustMarshal(&p2p.Envelope{Payload: &anypb.Any{TypeUrl: "type.googleapis.com/types.Packet", Value: ext}}))},
		mayDeliver: &delivered{topic: lib.Topic_BLOCK_REQUEST, msg: []byte("with-unknown-field")}})
	return
}

var rawContexts = []string{"none", "partial-message-pending", "complete-message-before"}

func runRawCase(w *world, ctx string, rc rawCase) (string, []finding, string) {
	w.free = true
	w.setup(1, nil)
	defer w.teardown()
	l := w.links[0]
	before := []byte("complete message delivered before the bad frame")
	after := []byte("valid message written after the bad frame")
	var expect []delivered
	switch ctx {
	case "partial-message-pending":
		l.sconn.Write(packetFrame(tY, false, []byte("first half of a message whose second half never comes")))
	case "complete-message-before":
		l.sconn.Write(packetFrame(tY, true, before))
		expect = append(expect, delivered{topic: tY, msg: before})
	}
	l.rconn.rd.waitIdle()
	for _, f := range rc.frames {
		l.sconn.Write(f)
		l.rconn.rd.waitIdle()
	}
	if rc.closeAfter {
		l.sconn.Close()
		l.rconn.rd.waitIdle()
	}
	closed := l.rconn.rd.isClosed() && l.rc.VerifC18HasError()
	l.sconn.Write(packetFrame(lib.Topic_CONSENSUS, true, after))
	l.rconn.rd.waitIdle()
	got := w.readInboxes()
	var fs []finding
	var dl []string
	for _, d := range got {
		dl = append(dl, fmt.Sprintf("T%d:%q", d.topic, trunc(d.msg)))
		switch {
		case len(expect) > 0 && d.topic == expect[0].topic && bytes.Equal(d.msg, expect[0].msg) && d.sender == l.info:
			expect = expect[1:]
		case !closed && d.topic == lib.Topic_CONSENSUS && bytes.Equal(d.msg, after) && d.sender == l.info:
			// the connection stayed open, so the later valid message is delivered
		case rc.mayDeliver != nil && d.topic == rc.mayDeliver.topic && bytes.Equal(d.msg, rc.mayDeliver.msg) && d.sender == l.info:
		default:
			fs = append(fs, finding{"C18:malformed-partial-delivery:" + rc.class, fmt.Sprintf("after %s (context %s) the inbox of topic %d holds %q, which is not a complete message that was sent", rc.kind, ctx, d.topic, trunc(d.msg))})
		}
	}
	if len(expect) > 0 {
		fs = append(fs, finding{"C18:lost:no-fault", fmt.Sprintf("the complete message sent before %s was not delivered", rc.kind)})
	}
	if rc.mustClose && !closed {
		fs = append(fs, finding{"C18:not-closed:" + rc.class, fmt.Sprintf("%s (context %s) did not close the connection: conn closed=%v Error() ran=%v receive service exited=%v receiver errors=%v; a valid message written afterwards was %s",
			rc.kind, ctx, l.rconn.rd.isClosed(), l.rc.VerifC18HasError(), l.rconn.rd.readerDone, l.rErr, map[bool]string{true: "delivered", false: "not delivered"}[containsMsg(got, after)])})
	}
	state := "left-open"
	if closed {
		state = "closed:" + strings.Join(l.rErr, ",")
	}
	obs := fmt.Sprintf("ctx=%s kind=%s state=%s delivered=%v", ctx, rc.kind, state, dl)
	return rc.class + ":" + state, fs, obs
}

func verdict(fs []finding) string {
	if len(fs) == 0 {
		return "ok"
	}
	var l []string
	for _, f := range fs {
		l = append(l, f.sig)
	}
	return strings.Join(l, ", ")
}

func containsMsg(got []delivered, m []byte) bool {
	for _, d := range got {
		if bytes.Equal(d.msg, m) {
			return true
		}
	}
	return false
}

func trunc(b []byte) string {
	if len(b) > 48 {
		return string(b[:48]) + "…"
	}
	return string(b)
}

// runStopDuringReceive: the receive service has read the last packet of a 2-packet message from
// the connection; before it gets to handle it, another goroutine stops the connection (what the
// heartbeat goroutine does on a pong timeout, the send service on a write error, AddPeer when it
// replaces a duplicate connection, P2P.Stop); then the receive service continues. No hook is
// involved: the in-memory connection merely returns from Read late. Allowed outcomes: the whole
// message or nothing.
func runStopDuringReceive(w *world, topic lib.Topic, packets int) (string, []finding, string) {
	w.free = true
	w.setup(1, nil)
	defer w.teardown()
	l := w.links[0]
	size := sz(packets, "exact")
	op := &sendOp{Link: 0, Topic: topic, Size: size, msg: mkMessage(1, size)}
	w.sendNow(op)
	for i := 0; i < packets-1; i++ {
		w.drain(qid{0, topic})
	}
	l.rconn.rd.armHold()
	reached := l.rconn.rd.holdReached
	if !l.drainer.DrainOne(topic) {
		panic("c18 harness: nothing to drain")
	}
	<-reached // the last frame is completely read, the receive service has not handled it yet
	l.rc.Stop()
	close(l.rconn.rd.holdRelease)
	l.rconn.rd.waitReaderDone()
	got := w.readInboxes()
	o := w.judge([]*sendOp{op}, got, func(*sendOp) bool { return false })
	for i := range o.findings {
		if o.findings[i].sig == "C18:truncated" {
			o.findings[i].sig = "C18:truncated:stop-concurrent-with-receive"
			o.findings[i].what += fmt.Sprintf(" — schedule: packets 1..%d of a %d-packet message handled; receive service reads packet %d from the connection; another goroutine calls MultiConn.Stop() (Stream.cleanup sets msgAssembler=nil); receive service handles packet %d (EOF) and delivers only its bytes", packets-1, packets, packets, packets)
		}
	}
	class := "stop-during-receive:nothing-delivered"
	if len(got) > 0 {
		class = fmt.Sprintf("stop-during-receive:delivered-%d-bytes-of-%d", len(got[0].msg), size)
	}
	return class, o.findings, o.obs + fmt.Sprintf(" delivered=%d", len(got))
}

// runFullQueueCase: the send queue of a topic is full (the peer reads slowly and the send service is
// stuck in Write); a multi-packet Send and a second Send on the same topic are started while it is
// full, and only then does the queue drain. The two senders run as real goroutines (a sender blocked
// on a full queue blocks inside a channel operation, where no hook can park it); the harness settles
// for a moment after each start. The settling time only shapes the scenario: if a sender has not
// blocked yet the run is a different, equally legal interleaving, and the oracle (every delivered
// message is a whole message that was sent) holds for all of them.
func runFullQueueCase(w *world, topic lib.Topic, aPackets, bPackets int, aFirst bool) (string, []finding, string) {
	w.free = true
	w.setup(1, nil)
	defer w.teardown()
	var all []*sendOp
	for i := 0; i < K.SendQueueCap; i++ {
		op := &sendOp{Link: 0, Topic: topic, Size: 8 + i, msg: mkMessage(3, 8+i)}
		w.sendNow(op)
		all = append(all, op)
	}
	a := &sendOp{Link: 0, Topic: topic, Size: aPackets*K.MaxDataChunkSize - 7, msg: mkMessage(1, aPackets*K.MaxDataChunkSize-7)}
	b := &sendOp{Link: 0, Topic: topic, Size: (bPackets-1)*K.MaxDataChunkSize + 500, msg: mkMessage(2, (bPackets-1)*K.MaxDataChunkSize+500)}
	all = append(all, a, b)
	done := make(chan struct{}, 2)
	start := func(op *sendOp) {
		go func() {
			op.ok = w.links[0].sc.Send(op.Topic, op.msg.payload)
			op.ran = true
			done <- struct{}{}
		}()
		time.Sleep(40 * time.Millisecond)
	}
	if aFirst {
		start(a)
		start(b)
	} else {
		start(b)
		start(a)
	}
	var got []delivered
	finished, nd := 0, 0
	for idle := 0; finished < 2 || idle < 3; {
		select {
		case <-done:
			finished++
		default:
		}
		qs := w.nonEmptyQueues()
		if len(qs) == 0 {
			if finished == 2 {
				idle++
			}
			time.Sleep(time.Millisecond)
			continue
		}
		idle = 0
		w.drain(qs[0])
		if nd++; nd%200 == 0 {
			got = append(got, w.readInboxes()...)
		}
	}
	got = append(got, w.readInboxes()...)
	o := w.judge(all, got, func(op *sendOp) bool { return op.ok })
	l := w.links[0]
	if len(l.rErr)+len(l.sErr) > 0 || l.rconn.rd.isClosed() {
		o.findings = append(o.findings, finding{"C18:valid-traffic-closed-connection", fmt.Sprintf("full-queue scenario closed the connection: receiver errors %v sender errors %v", l.rErr, l.sErr)})
	}
	class := fmt.Sprintf("full-queue:%d+%d-packets:all-whole", aPackets, bPackets)
	// the full observation lists a thousand fillers and depends on goroutine timing: report a summary
	obs := fmt.Sprintf("delivered=%d of %d sent; A ok=%v B ok=%v", len(got), len(all), a.ok, b.ok)
	return class, o.findings, obs
}

// runAttributionCase: the whole path from the socket to the inbox. Two real P2P nodes are joined through
// P2P.AddPeer (real handshake, real connection services). The dialling side was told to expect the key
// `claimed` at that address (peer book / gossiped address: strict=false; configured peer: strict=true);
// the node that answers authenticates with its own key. Whatever reaches the dialler's inbox must be
// attributed to the key that was AUTHENTICATED by the handshake, or nothing may be delivered at all.
func runAttributionCase(w *world, claimOther, strict bool) (string, []finding, string) {
	// fresh nodes: the peer sets of the world's nodes must not remember earlier cases
	dialler, answerer, third := newNode(), newNode(), newNode()
	ca, cb := newMemPipeCopy("dialler", "answerer")
	defer func() {
		dialler.p.Stop()
		answerer.p.Stop()
		ca.Close()
		cb.Close()
	}()
	claimed := answerer.pub
	if claimOther {
		claimed = third.pub
	}
	meta := &lib.PeerMeta{NetworkId: 1, ChainId: 1}
	errB := make(chan lib.ErrorI, 1)
	go func() {
		errB <- answerer.p.AddPeer(cb, &lib.PeerInfo{Address: &lib.PeerAddress{NetAddress: "mem://dialler", PeerMeta: meta}}, false, false)
	}()
	eA := dialler.p.AddPeer(ca, &lib.PeerInfo{IsOutbound: true, Address: &lib.PeerAddress{PublicKey: bytes.Clone(claimed), NetAddress: "mem://answerer", PeerMeta: meta}}, false, strict)
	eB := <-errB
	obs := fmt.Sprintf("claimOther=%v strict=%v dialler.AddPeer=%v answerer.AddPeer=%v", claimOther, strict, eA != nil, eB != nil)
	if eA != nil || eB != nil {
		if claimOther && strict {
			return "attribution:strict-mismatch:refused", nil, obs
		}
		if !claimOther {
			return "attribution:honest:refused", []finding{{"C18:valid-traffic-closed-connection", "an honest outbound connection was refused: " + fmt.Sprint(eA, eB)}}, obs
		}
		return "attribution:non-strict-mismatch:refused", nil, obs
	}
	if claimOther && strict {
		return "attribution:strict-mismatch:ACCEPTED", []finding{{"C18:misattributed:strict-dial-accepted-other-key", "a strict outbound dial expecting one key completed with a node that authenticated with another key"}}, obs
	}
	// the answerer sends one message to the dialler on the TX topic
	msg := mkMessage(5, 300)
	if e := answerer.p.PeerSet.SendTo(dialler.pub, tX, &lib.StringWrapper{Value: string(msg.payload)}); e != nil {
		return "attribution:send-refused", nil, obs + " send=" + e.Error()
	}
	select {
	case m := <-dialler.p.Inbox(tX):
		var got []byte
		if m.Sender != nil && m.Sender.Address != nil {
			got = m.Sender.Address.PublicKey
		}
		switch {
		case bytes.Equal(got, answerer.pub):
			return "attribution:authenticated-key", nil, obs
		case bytes.Equal(got, claimed):
			return "attribution:CLAIMED-key", []finding{{"C18:misattributed:claimed-key-instead-of-authenticated-key",
				fmt.Sprintf("a message received over an outbound connection (strict=%v) is attributed to the key the dialler was told to expect (%x…), not to the key the remote node authenticated with in the handshake (%x…)", strict, claimed[:6], answerer.pub[:6])}}, obs
		default:
			return "attribution:other-key", []finding{{"C18:misattributed", fmt.Sprintf("message attributed to %x", got)}}, obs
		}
	case <-time.After(3 * time.Second):
		return "attribution:nothing-delivered", nil, obs
	}
}

// runSessionReplaceCase: a multi-packet message from S to D is in flight on a link that stalls after `through`
// packets' worth of bytes; D loses its state and comes back (a fresh instance with the same identity dials S), so S
// replaces the session. Whatever the new D receives on the topic must be a message that was sent, whole: the old
// message may be lost with its session, it must not arrive as a fragment; a message sent afterwards arrives intact.
func runSessionReplaceCase(packets int, through float64) (string, []finding, string) {
	dpriv, err := crypto.NewBLS12381PrivateKey()
	if err != nil {
		panic(err)
	}
	D, S := newNodeWithKey(dpriv), newNode()
	c1d, c1s := newMemPipeCopy("D", "S")
	gs := newGatedConn(c1s)
	meta := &lib.PeerMeta{NetworkId: 1, ChainId: 1}
	connect := func(d *node, cd net.Conn, cs net.Conn) (lib.ErrorI, lib.ErrorI) {
		errS := make(chan lib.ErrorI, 1)
		go func() {
			errS <- S.p.AddPeer(cs, &lib.PeerInfo{Address: &lib.PeerAddress{NetAddress: "mem://D", PeerMeta: meta}}, false, false)
		}()
		eD := d.p.AddPeer(cd, &lib.PeerInfo{IsOutbound: true, Address: &lib.PeerAddress{PublicKey: bytes.Clone(S.pub), NetAddress: "mem://S", PeerMeta: meta}}, false, false)
		return eD, <-errS
	}
	// the returning instance exists before the stall: the new session must arrive while the old one is still waiting
	// for its write deadline (p2p.WriteTimeout), otherwise the old session is simply gone
	D2 := newNodeWithKey(dpriv)
	defer func() {
		close(gs.release)
		D.p.Stop()
		S.p.Stop()
		if D2 != nil {
			D2.p.Stop()
		}
		c1d.Close()
		c1s.Close()
	}()
	if eD, eS := connect(D, c1d, gs); eD != nil || eS != nil {
		return "session-replace:first-session-refused", []finding{{"C18:valid-traffic-closed-connection", fmt.Sprint("first session refused: ", eD, eS)}}, ""
	}
	big := mkMessage(6, packets*K.MaxDataChunkSize-100)
	gs.arm(int(through * float64(K.MaxPacketSize)))
	if e := S.p.PeerSet.SendTo(D.pub, lib.Topic_BLOCK, &lib.StringWrapper{Value: string(big.payload)}); e != nil {
		return "session-replace:send-refused", nil, e.Error()
	}
	select {
	case <-gs.blocked:
	case <-time.After(20 * time.Second):
		return "session-replace:link-never-stalled", nil, "the whole message left before the link stalled"
	}
	hadOld := S.p.PeerSet.Has(D.pub)
	c2d, c2s := newMemPipeCopy("D2", "S")
	defer func() { c2d.Close(); c2s.Close() }()
	eD, eS := connect(D2, c2d, c2s)
	obs := fmt.Sprintf("packets=%d through=%.1f old-session-still-registered=%v second-session: dialler=%v answerer=%v", packets, through, hadOld, eD != nil, eS != nil)
	if eD != nil || eS != nil {
		return "session-replace:second-session-refused", nil, obs
	}
	small := mkMessage(7, 300)
	if e := S.p.PeerSet.SendTo(D2.pub, lib.Topic_BLOCK, &lib.StringWrapper{Value: string(small.payload)}); e != nil {
		return "session-replace:follow-up-send-refused", nil, obs + " " + e.Error()
	}
	var fs []finding
	gotSmall, n := 0, 0
	bigWire, smallWire := mustMarshal(&lib.StringWrapper{Value: string(big.payload)}), mustMarshal(&lib.StringWrapper{Value: string(small.payload)})
	// wait for the follow-up message (up to 15 s: a loaded machine must not turn into "not delivered"), then 1.5 s more for
	// whatever else the new session delivers
	deadline := time.After(15 * time.Second)
	for done := false; !done; {
		select {
		case m := <-D2.p.Inbox(lib.Topic_BLOCK):
			n++
			got := m.Message
			switch {
			case bytes.Equal(got, smallWire):
				if gotSmall == 0 {
					deadline = time.After(1500 * time.Millisecond)
				}
				gotSmall++
			case bytes.Equal(got, bigWire):
			default:
				kind := "neither a sent message nor a piece of one"
				if len(got) > 0 && bytes.HasSuffix(bigWire, got) {
					kind = "the TAIL of the message that was in flight on the replaced session"
				} else if len(got) > 0 && bytes.Contains(bigWire, got) {
					kind = "a piece of the message that was in flight on the replaced session"
				}
				fs = append(fs, finding{"C18:fragment-delivered-after-session-replacement", fmt.Sprintf("the new session delivered %d bytes that are %s (sent: %d bytes and %d bytes)", len(got), kind, len(big.payload), len(small.payload))})
			}
		case <-deadline:
			done = true
		}
	}
	if gotSmall != 1 && len(fs) == 0 {
		fs = append(fs, finding{"C18:message-after-session-replacement-not-delivered-once", fmt.Sprintf("the message sent on the new session arrived %d times", gotSmall)})
	}
	if os.Getenv("C18_DEBUG") != "" {
		fmt.Fprintf(os.Stderr, "session-replace debug: %s delivered=%d follow-up=%d findings=%v\n", obs, n, gotSmall, fs)
	}
	return fmt.Sprintf("session-replace:delivered=%d:follow-up=%d", n, gotSmall), fs, obs
}

// throttledConn makes every socket write take a moment, so that a bulk transfer lasts longer than a heartbeat interval.
type throttledConn struct {
	*memConn
	per time.Duration
	n   atomic.Int64
}

func (t *throttledConn) Write(b []byte) (int, error) {
	if t.n.Add(1)%64 == 0 {
		time.Sleep(64 * t.per) // short sleeps are rounded up to the timer granularity: sleep rarely, for longer
	}
	return t.memConn.Write(b)
}

// runBulkUnderHeartbeats: two real nodes joined through P2P.AddPeer (real handshake, encrypted connection, real send /
// receive / heartbeat goroutines). S sends several multi-packet messages on a link slow enough for the transfer to
// span a few heartbeat intervals: pings and pongs share the connection with the bulk data. Every message D receives
// must be one that was sent, whole and unmodified, and the connection must survive. The timing only shapes the
// scenario (how many pings fall inside the transfer); the oracle does not depend on it.
func runBulkUnderHeartbeats(messages, packets int) (string, []finding, string) {
	D, S := newNode(), newNode()
	cd, cs := newMemPipeCopy("D", "S")
	frames := messages * packets * (K.MaxPacketSize/1000 + 1)
	per := time.Duration(int64(3*K.HeartbeatInterval) / int64(frames))
	ts := &throttledConn{memConn: cs, per: per}
	meta := &lib.PeerMeta{NetworkId: 1, ChainId: 1}
	defer func() { D.p.Stop(); S.p.Stop(); cd.Close(); cs.Close() }()
	errS := make(chan lib.ErrorI, 1)
	go func() {
		errS <- S.p.AddPeer(ts, &lib.PeerInfo{Address: &lib.PeerAddress{NetAddress: "mem://D", PeerMeta: meta}}, false, false)
	}()
	eD := D.p.AddPeer(cd, &lib.PeerInfo{IsOutbound: true, Address: &lib.PeerAddress{PublicKey: bytes.Clone(S.pub), NetAddress: "mem://S", PeerMeta: meta}}, false, false)
	if eS := <-errS; eD != nil || eS != nil {
		return "bulk-under-heartbeats:session-refused", []finding{{"C18:valid-traffic-closed-connection", fmt.Sprint("session refused: ", eD, eS)}}, ""
	}
	var wires [][]byte
	t0 := time.Now()
	for i := 0; i < messages; i++ {
		m := mkMessage(1+i%4, packets*K.MaxDataChunkSize-100-i)
		wires = append(wires, mustMarshal(&lib.StringWrapper{Value: string(m.payload)}))
		if e := S.p.PeerSet.SendTo(D.pub, lib.Topic_BLOCK, &lib.StringWrapper{Value: string(m.payload)}); e != nil {
			return "bulk-under-heartbeats:send-refused", nil, e.Error()
		}
	}
	var fs []finding
	got := 0
	deadline := time.After(12*K.HeartbeatInterval + 20*time.Second)
	poll := time.NewTicker(50 * time.Millisecond)
	defer poll.Stop()
	// A connection that closes is a finding only if it closes EARLY: the heartbeat logic itself drops a peer it has not heard
	// from for 3 s, which an overloaded machine can produce on a throttled link; both nodes heard each other in the handshake
	// a moment before t0, so a close within the first 2.5 s cannot be that timeout
	const early = 2500 * time.Millisecond
	for got < messages && len(fs) == 0 {
		select {
		case m := <-D.p.Inbox(lib.Topic_BLOCK):
			if got >= len(wires) || !bytes.Equal(m.Message, wires[got]) {
				what := fmt.Sprintf("message %d of %d arrived modified (%d bytes, sent %d)", got, messages, len(m.Message), len(wires[min(got, len(wires)-1)]))
				fs = append(fs, finding{"C18:modified:bulk-under-heartbeats", what})
			}
			got++
		case <-poll.C:
			if !S.p.PeerSet.Has(D.pub) || !D.p.PeerSet.Has(S.pub) {
				if el := time.Since(t0); el <= early {
					fs = append(fs, finding{"C18:valid-traffic-closed-connection:bulk-under-heartbeats", fmt.Sprintf("the connection was closed %.1f s into a bulk transfer of %d valid messages (%d delivered)", el.Seconds(), messages, got)})
					return fmt.Sprintf("bulk-under-heartbeats:closed-early:delivered=%d-of-%d", got, messages), fs, ""
				}
				return fmt.Sprintf("bulk-under-heartbeats:closed-late:not-judged:delivered=%d-of-%d", got, messages), nil, "closed after more than 2.5 s: cannot be told from the 3 s heartbeat timeout on an overloaded machine"
			}
		case <-deadline:
			return fmt.Sprintf("bulk-under-heartbeats:delivered=%d-of-%d:timeout:not-judged", got, messages), nil, ""
		}
	}
	span := time.Since(t0)
	return fmt.Sprintf("bulk-under-heartbeats:%d-messages:all-whole", messages), fs, fmt.Sprintf("transfer spanned %.1f heartbeat intervals", float64(span)/float64(K.HeartbeatInterval))
}

func runSequentialSmall(r *mc.Run, w *world) *seqStats {
	st := &seqStats{outcomes: map[string]int{}}
	for t := lib.Topic(0); t <= K.HeartbeatTopic; t++ {
		for _, n := range sizeList() {
			name := fmt.Sprintf("size:%d:%d", t, n)
			class, fs, obs := runSizeCase(w, t, n)
			if len(fs) > 0 { // same input must fail every time
				for i := 0; i < 4; i++ {
					if _, fs2, obs2 := runSizeCase(w, t, n); len(fs2) != len(fs) || obs2 != obs {
						harnessError("sequential case %s does not reproduce identically:\n %s\n %s", name, obs, obs2)
					}
				}
				report(r, name, fs, obs)
			}
			st.sizeCases++
			st.steps += 1 + packetsOf(n)
			st.outcomes[class]++
			if t == tX && n == 2*K.MaxDataChunkSize+1 {
				r.AddSample(map[string]any{"family": "sequential size x topic", "case": name, "observation": obs, "verdict": verdict(fs)})
			}
		}
	}
	for _, ctx := range rawContexts {
		for _, rc := range rawCases() {
			name := "raw:" + ctx + ":" + rc.kind
			class, fs, obs := runRawCase(w, ctx, rc)
			if len(fs) > 0 {
				for i := 0; i < 4; i++ {
					if _, fs2, obs2 := runRawCase(w, ctx, rc); len(fs2) != len(fs) || obs2 != obs {
						harnessError("sequential case %s does not reproduce identically:\n %s\n %s", name, obs, obs2)
					}
				}
				report(r, name, fs, obs)
			}
			st.malformedCases++
			st.steps += len(rc.frames) + 2
			st.outcomes[class]++
			if ctx == "partial-message-pending" && rc.kind == "packet-on-undefined-topic-100" {
				r.AddSample(map[string]any{"family": "sequential malformed / undefined-topic frames", "case": name, "observation": obs, "verdict": verdict(fs)})
			}
		}
	}
	for _, k := range []int{2, 3} {
		name := fmt.Sprintf("stop-during-receive:%d:%d", tX, k)
		class, fs, obs := runStopDuringReceive(w, tX, k)
		if len(fs) > 0 {
			for i := 0; i < 4; i++ {
				if _, fs2, obs2 := runStopDuringReceive(w, tX, k); len(fs2) != len(fs) || obs2 != obs {
					harnessError("sequential case %s does not reproduce identically:\n %s\n %s", name, obs, obs2)
				}
			}
			report(r, name, fs, obs)
		}
		st.malformedCases++
		st.steps += 2 + k
		st.outcomes[class]++
		if k == 2 {
			r.AddSample(map[string]any{"family": "sequential stop during receive", "case": name, "observation": obs, "verdict": verdict(fs)})
		}
	}
	for _, ac := range []struct{ other, strict bool }{{false, false}, {false, true}, {true, false}, {true, true}} {
		name := fmt.Sprintf("attribution:claimOther=%v:strict=%v", ac.other, ac.strict)
		class, fs, obs := runAttributionCase(w, ac.other, ac.strict)
		if len(fs) > 0 {
			for i := 0; i < 2; i++ {
				if _, fs2, _ := runAttributionCase(w, ac.other, ac.strict); len(fs2) == 0 {
					fs = nil
					break
				}
			}
			if len(fs) > 0 {
				report(r, name, fs[:1], obs)
			}
		}
		st.malformedCases++
		st.steps += 3
		st.outcomes[class]++
	}
	for _, sr := range []struct {
		packets int
		through float64
	}{{3, 0.5}, {2, 0.5}, {3, 1.5}} {
		name := fmt.Sprintf("session-replace:%d:%.1f", sr.packets, sr.through)
		run := func() (string, []finding, string) {
			type out struct {
				class string
				fs    []finding
				obs   string
			}
			ch := make(chan out, 1)
			go func() {
				c, f, o := runSessionReplaceCase(sr.packets, sr.through)
				ch <- out{c, f, o}
			}()
			select {
			case o := <-ch:
				return o.class, o.fs, o.obs
			case <-time.After(45 * time.Second):
				// not a finding of its own: the case blocks in a handshake when the first session dies at the wrong moment
				return "session-replace:abandoned-after-45s", nil, ""
			}
		}
		class, fs, obs := run()
		if len(fs) > 0 {
			if _, fs2, _ := run(); len(fs2) == 0 {
				fs = nil // not reproducible: timing, not a defect
			}
		}
		if len(fs) > 0 {
			report(r, name, fs[:1], obs)
		}
		st.malformedCases++
		st.steps += 4 + sr.packets
		st.outcomes[class]++
	}
	{
		name := "bulk-under-heartbeats:4x3"
		class, fs, obs := runBulkUnderHeartbeats(4, 3)
		if len(fs) > 0 {
			if _, fs2, _ := runBulkUnderHeartbeats(4, 3); len(fs2) == 0 {
				fs = nil // not reproducible: timing, not a defect
			}
		}
		if len(fs) > 0 {
			report(r, name, fs[:1], obs)
		}
		st.malformedCases++
		st.steps += 12
		st.outcomes[class]++
		r.AddSample(map[string]any{"family": "bulk transfer sharing the connection with heartbeats (real nodes, free-running)", "case": name, "observation": obs, "verdict": verdict(fs)})
	}
	for _, fq := range []struct {
		a, b   int
		aFirst bool
	}{{3, 1, true}, {2, 1, true}, {2, 2, true}, {3, 1, false}, {2, 2, false}} {
		name := fmt.Sprintf("full-queue:%d:%d+%d:aFirst=%v", tX, fq.a, fq.b, fq.aFirst)
		class, fs, obs := runFullQueueCase(w, tX, fq.a, fq.b, fq.aFirst)
		if len(fs) > 0 {
			// goroutine timing shapes this scenario: require the same class of finding on re-runs, not the same observation
			for i := 0; i < 4; i++ {
				if _, fs2, _ := runFullQueueCase(w, tX, fq.a, fq.b, fq.aFirst); len(fs2) == 0 {
					fs = nil // not reproducible: an artefact of timing is never reported
					break
				}
			}
			if len(fs) > 0 {
				report(r, name, fs[:1], obs)
			}
		}
		st.malformedCases++
		st.steps += K.SendQueueCap + fq.a + fq.b
		st.outcomes[class]++
	}
	// a sender-side Send on a topic without stream must be refused and put nothing on the wire
	{
		w.free = true
		w.setup(1, nil)
		op := &sendOp{Link: 0, Topic: lib.Topic_INVALID, Size: 10, msg: mkMessage(1, 10)}
		w.sendNow(op)
		w.drainAll(0)
		got := w.readInboxes()
		if op.ok || len(got) > 0 || w.links[0].sconn.wr.frames != 0 {
			report(r, "send-on-topic-99", []finding{{"C18:send-on-undefined-topic-accepted", fmt.Sprintf("Send(Topic_INVALID) returned %v, %d frames written, %d messages delivered", op.ok, w.links[0].sconn.wr.frames, len(got))}}, "")
		}
		w.teardown()
		st.malformedCases++
		st.outcomes["send-on-undefined-topic:refused"]++
	}
	return st
}

// ---- the message size limit

type limitCase struct {
	name    string
	delta   int
	partial bool // a 2-packet message on another topic is half delivered when the limit is hit
}

func limitCases(quick bool) []limitCase {
	c := K.MaxDataChunkSize
	if quick {
		return []limitCase{{"limit", 0, false}, {"limit+1", 1, true}}
	}
	return []limitCase{{"limit-1packet", -c, false}, {"limit-1", -1, false}, {"limit", 0, false}, {"limit+1", 1, false}, {"limit+1:partial-on-other-topic", 1, true}, {"limit+1packet", c, true}}
}

var limitAbort time.Time // a size-limit case that is still draining at this time is abandoned

func runLimitCase(w *world, lc limitCase) (string, []finding, string) {
	w.free = true
	w.setup(1, nil)
	defer w.teardown()
	l := w.links[0]
	size := K.MaxMessageSize + lc.delta
	var all []*sendOp
	var other *sendOp
	if lc.partial {
		other = &sendOp{Link: 0, Topic: tY, Size: sz(2, "mid"), msg: mkMessage(2, sz(2, "mid"))}
		w.sendNow(other)
		w.drain(qid{0, tY}) // first half of the other message is now in the receiver's assembler
		all = append(all, other)
	}
	op := &sendOp{Link: 0, Topic: tX, Size: size, msg: mkBigMessage(1, size, K.MaxMessageSize+K.MaxDataChunkSize)}
	all = append(all, op)
	w.sendNow(op)
	w.gcEvery = 16
	defer func() { w.gcEvery = 0; w.wire = nil; runtime.GC() }()
	for l.sc.VerifC18QueueLen(tX) > 0 { // the big message first, then whatever is left on other topics
		w.drain(qid{0, tX})
		if !limitAbort.IsZero() && time.Now().After(limitAbort) {
			w.readInboxes()
			return fmt.Sprintf("%s(%d bytes): abandoned after %d packets (deadline)", lc.name, size, w.drains), nil, "abandoned"
		}
	}
	w.drainAll(0)
	got := w.readInboxes()
	over := size > K.MaxMessageSize
	o := w.judge(all, got, func(*sendOp) bool { return !over })
	closed := l.rconn.rd.isClosed() && l.rc.VerifC18HasError()
	if over {
		if len(got) > 0 {
			o.findings = append(o.findings, finding{"C18:over-limit-delivered", fmt.Sprintf("a %d-byte message (limit %d) led to %d deliveries: %s", size, K.MaxMessageSize, len(got), o.delivery)})
		}
		if !closed {
			o.findings = append(o.findings, finding{"C18:not-closed:over-limit", fmt.Sprintf("a %d-byte message (limit %d) did not close the connection (receiver errors %v)", size, K.MaxMessageSize, l.rErr)})
		}
	} else if closed || len(l.rErr)+len(l.sErr) > 0 {
		o.findings = append(o.findings, finding{"C18:valid-traffic-closed-connection", fmt.Sprintf("a %d-byte message (limit %d) closed the connection: receiver errors %v sender errors %v", size, K.MaxMessageSize, l.rErr, l.sErr)})
	}
	desc := fmt.Sprintf("%s(%d bytes, %d packets): ", lc.name, size, packetsOf(size))
	if over {
		desc += fmt.Sprintf("closed=%v %v delivered=%d", closed, l.rErr, len(got))
	} else {
		desc += fmt.Sprintf("delivered whole=%v", len(got) == len(all) && len(o.findings) == 0)
	}
	return desc, o.findings, o.obs
}

func runLimitCases(r *mc.Run, w *world, deadline time.Time) (out []string) {
	for _, lc := range limitCases(r.Quick()) {
		if time.Until(deadline) < 20*time.Second {
			r.Exhaustive = false
			r.Note("size-limit case %s not run (less than 20 s left)", lc.name)
			continue
		}
		limitAbort = deadline
		desc, fs, obs := runLimitCase(w, lc)
		limitAbort = time.Time{}
		if obs == "abandoned" {
			r.Exhaustive = false
			r.Note("size-limit case %s", desc)
		}
		if len(fs) > 0 {
			report(r, "limit:"+lc.name, fs, obs)
		}
		out = append(out, desc)
	}
	return
}

func replaySequential(r *mc.Run, w *world, name string) {
	parts := strings.SplitN(name, ":", 3)
	switch parts[0] {
	case "size":
		var t, n int
		fmt.Sscanf(parts[1], "%d", &t)
		fmt.Sscanf(parts[2], "%d", &n)
		_, fs, obs := runSizeCase(w, lib.Topic(t), n)
		fmt.Println("  observation:", obs)
		report(r, name, fs, obs)
	case "raw":
		for _, rc := range rawCases() {
			if rc.kind == parts[2] {
				_, fs, obs := runRawCase(w, parts[1], rc)
				fmt.Println("  observation:", obs)
				report(r, name, fs, obs)
			}
		}
	case "stop-during-receive":
		var t, k int
		fmt.Sscanf(parts[1], "%d", &t)
		fmt.Sscanf(parts[2], "%d", &k)
		_, fs, obs := runStopDuringReceive(w, lib.Topic(t), k)
		fmt.Println("  observation:", obs)
		report(r, name, fs, obs)
	case "limit":
		for _, lc := range limitCases(false) {
			if lc.name == strings.TrimPrefix(name, "limit:") {
				_, fs, obs := runLimitCase(w, lc)
				fmt.Println("  observation:", obs)
				report(r, name, fs, obs)
			}
		}
	}
}
