package main

import (
	"bytes"
	"crypto/sha256"
	"encoding/hex"
	"fmt"
	"io"
	"net"
	"os"
	"runtime"
	"sort"
	"strings"
	"sync"
	"time"

	"github.com/canopy-network/canopy/lib"
	"github.com/canopy-network/canopy/lib/crypto"
	"github.com/canopy-network/canopy/p2p"
)

// ---------------------------------------------------------------------------------------
// in-memory connection: unbounded buffered duplex pipe without any clock. The reading half
// exposes "the reader consumed everything and is blocked in Read again", which is how the
// harness knows (without timing) that the real receive service has finished processing
// everything that was written so far.

type half struct {
	mu         sync.Mutex
	cond       *sync.Cond
	chunks     [][]byte
	off        int
	closed     bool
	waiting    bool // reader is blocked in Read with an empty buffer
	readerDone bool // the goroutine that owns the reading end has returned
	frames     int
	copyWrites bool // see newMemPipeCopy
	// hold: the next Read that empties the buffer does not return until released (models a
	// reader goroutine that is descheduled right after its read completed)
	holdArmed   bool
	holdReached chan struct{}
	holdRelease chan struct{}
}

func newHalf() *half { h := &half{}; h.cond = sync.NewCond(&h.mu); return h }

func (h *half) write(b []byte) (int, error) {
	h.mu.Lock()
	defer h.mu.Unlock()
	if h.closed {
		return 0, io.ErrClosedPipe
	}
	// no copy: every writer (sendLengthPrefixed, the harness' raw frames) hands over a buffer it
	// never touches again; one copy less of every 1 MB packet
	if h.copyWrites {
		b = append([]byte(nil), b...)
	}
	h.chunks = append(h.chunks, b)
	h.frames++
	h.cond.Broadcast()
	return len(b), nil
}

func (h *half) read(b []byte) (int, error) {
	h.mu.Lock()
	defer h.mu.Unlock()
	for len(h.chunks) == 0 && !h.closed {
		h.waiting = true
		h.cond.Broadcast()
		h.cond.Wait()
	}
	h.waiting = false
	if len(h.chunks) == 0 {
		return 0, io.EOF
	}
	n := copy(b, h.chunks[0][h.off:])
	h.off += n
	if h.off == len(h.chunks[0]) {
		h.chunks[0] = nil
		h.chunks = h.chunks[1:]
		h.off = 0
	}
	if h.holdArmed && len(h.chunks) == 0 {
		h.holdArmed = false
		reached, release := h.holdReached, h.holdRelease
		h.mu.Unlock()
		close(reached)
		<-release
		h.mu.Lock()
	}
	return n, nil
}

func (h *half) armHold() {
	h.mu.Lock()
	h.holdArmed, h.holdReached, h.holdRelease = true, make(chan struct{}), make(chan struct{})
	h.mu.Unlock()
}

func (h *half) close() {
	h.mu.Lock()
	h.closed = true
	h.cond.Broadcast()
	h.mu.Unlock()
}

func (h *half) isClosed() bool { h.mu.Lock(); defer h.mu.Unlock(); return h.closed }

func (h *half) markReaderDone() {
	h.mu.Lock()
	h.readerDone = true
	h.cond.Broadcast()
	h.mu.Unlock()
}

// waitIdle blocks until the reader has consumed every byte written and is blocked in Read
// again, or the reader goroutine has returned.
func (h *half) waitIdle() {
	h.mu.Lock()
	for !(h.readerDone || (len(h.chunks) == 0 && h.waiting && !h.closed)) {
		h.cond.Wait()
	}
	h.mu.Unlock()
}

func (h *half) waitReaderDone() {
	h.mu.Lock()
	for !h.readerDone {
		h.cond.Wait()
	}
	h.mu.Unlock()
}

type memAddr string

func (a memAddr) Network() string { return "mem" }
func (a memAddr) String() string  { return string(a) }

type memConn struct {
	rd, wr        *half
	local, remote memAddr
}

// newMemPipeCopy: a pipe whose Write copies what it is handed. The real EncryptedConn seals every frame into a pooled
// buffer that it reuses for the next frame, so the no-copy pipe above corrupts a multi-frame stream whose reader lags
// (the scenarios that go through P2P.AddPeer used it until the fourth session: the first session of the
// session-replacement case died of a decryption failure before the second one arrived, and the replacement branch of
// AddPeer was never reached - a harness defect that made that case vacuous).
func newMemPipeCopy(a, b string) (*memConn, *memConn) {
	x, y := newMemPipe(a, b)
	x.wr.copyWrites, y.wr.copyWrites = true, true
	return x, y
}

func newMemPipe(a, b string) (*memConn, *memConn) {
	ab, ba := newHalf(), newHalf()
	return &memConn{rd: ba, wr: ab, local: memAddr(a), remote: memAddr(b)}, &memConn{rd: ab, wr: ba, local: memAddr(b), remote: memAddr(a)}
}

// gatedConn lets a byte budget through once armed and then stalls every further Write (a dead link whose
// buffers are full) until released.
type gatedConn struct {
	*memConn
	mu      sync.Mutex
	armed   bool
	budget  int
	blocked chan struct{} // closed when the first Write stalls
	release chan struct{} // closed to fail the stalled Writes
	once    sync.Once
	wdl     time.Time
}

func newGatedConn(c *memConn) *gatedConn {
	return &gatedConn{memConn: c, blocked: make(chan struct{}), release: make(chan struct{})}
}

func (g *gatedConn) arm(budget int) {
	g.mu.Lock()
	g.armed, g.budget = true, budget
	g.mu.Unlock()
}

func (g *gatedConn) Write(b []byte) (int, error) {
	g.mu.Lock()
	stall := g.armed && g.budget <= 0
	if g.armed && !stall {
		g.budget -= len(b)
	}
	g.mu.Unlock()
	if stall {
		g.once.Do(func() { close(g.blocked) })
		g.mu.Lock()
		dl := g.wdl
		g.mu.Unlock()
		var timer <-chan time.Time
		if !dl.IsZero() {
			timer = time.After(time.Until(dl))
		}
		select {
		case <-g.release:
			return 0, io.ErrClosedPipe
		case <-timer:
			return 0, os.ErrDeadlineExceeded // what a TCP write on a dead link returns when the write deadline passes
		}
	}
	return g.memConn.Write(b)
}

func (g *gatedConn) SetWriteDeadline(t time.Time) error {
	g.mu.Lock()
	g.wdl = t
	g.mu.Unlock()
	return nil
}

func (g *gatedConn) SetDeadline(t time.Time) error { return g.SetWriteDeadline(t) }

func (c *memConn) Read(b []byte) (int, error)         { return c.rd.read(b) }
func (c *memConn) Write(b []byte) (int, error)        { return c.wr.write(b) }
func (c *memConn) Close() error                       { c.rd.close(); c.wr.close(); return nil }
func (c *memConn) LocalAddr() net.Addr                { return c.local }
func (c *memConn) RemoteAddr() net.Addr               { return c.remote }
func (c *memConn) SetDeadline(t time.Time) error      { return nil }
func (c *memConn) SetReadDeadline(t time.Time) error  { return nil }
func (c *memConn) SetWriteDeadline(t time.Time) error { return nil }

// ---------------------------------------------------------------------------------------
// messages

var K p2p.VerifC18Consts // constants of the code under test (read, not assumed)

type message struct {
	id      int // small id; the high nibble of every payload byte is the id (classification of mix-ups)
	size    int
	payload []byte
	hash    string
}

var (
	payloadMu    sync.Mutex
	payloadCache = map[[2]int]*message{}
)

// mkMessage builds (and caches: payloads are immutable and shared read-only) message id of n bytes.
func mkMessage(id, n int) *message {
	payloadMu.Lock()
	defer payloadMu.Unlock()
	if m, ok := payloadCache[[2]int{id, n}]; ok {
		return m
	}
	b := make([]byte, n)
	for j := range b {
		b[j] = byte(id<<4) | byte((uint32(j)*2654435761)>>13)&0x0F
	}
	h := sha256.Sum256(b)
	m := &message{id: id, size: n, payload: b, hash: hex.EncodeToString(h[:8])}
	if n < 64<<20 {
		payloadCache[[2]int{id, n}] = m
	}
	return m
}

var bigBase []byte

// mkBigMessage: messages around the size limit share one backing buffer (they are used one
// after the other) and carry no digest; first-touch page faults are the dominant cost here.
func mkBigMessage(id, n, maxN int) *message {
	if len(bigBase) < maxN {
		bigBase = make([]byte, maxN)
		for j := range bigBase {
			bigBase[j] = byte(id<<4) | byte((uint32(j)*2654435761)>>13)&0x0F
		}
	}
	return &message{id: id, size: n, payload: bigBase[:n:n], hash: "(not hashed)"}
}

func dropPayloadCache() {
	payloadMu.Lock()
	payloadCache = map[[2]int]*message{}
	payloadMu.Unlock()
}

func packetsOf(n int) int {
	if n == 0 {
		return 1
	}
	return (n + K.MaxDataChunkSize - 1) / K.MaxDataChunkSize
}

// ---------------------------------------------------------------------------------------
// world: one receiver node and up to two sender nodes; per execution fresh MultiConns.

type sendOp struct {
	Link  int       `json:"link"`
	Topic lib.Topic `json:"topic"`
	Size  int       `json:"size"`
	msg   *message
	ok    bool
	ran   bool
}

const (
	atNew = iota
	atLock
	atEnq
	atDone
)

type thread struct {
	id     int
	ops    []*sendOp
	cur    int
	at     int
	link   int
	topic  lib.Topic
	pktIdx int
	resume chan struct{}
}

type link struct {
	sc, rc     *p2p.MultiConn
	sconn      *memConn // sender end
	rconn      *memConn // receiver end
	drainer    *p2p.VerifC18Drainer
	info       *lib.PeerInfo // what the receiver authenticated this link as
	sErr, rErr []string
	mirror     map[lib.Topic][]string // harness-side mirror of the send queues (observation only)
}

type node struct {
	p    *p2p.P2P
	priv crypto.PrivateKeyI
	pub  []byte
}

type world struct {
	recv    *node
	senders []*node
	links   []*link
	threads []*thread
	cur     *thread
	parked  chan struct{}
	free    bool // hooks do not park (sequential scripts)
	timer   *time.Timer
	errMu   sync.Mutex
	wire    []string
	gcEvery int
	drains  int
}

var (
	scratchDir string
	nodeMu     sync.Mutex
)

func newNode() *node {
	priv, err := crypto.NewBLS12381PrivateKey()
	if err != nil {
		panic(err)
	}
	return newNodeWithKey(priv)
}

// newNodeWithKey: a fresh P2P instance for an existing identity (a node that lost its state and came back).
func newNodeWithKey(priv crypto.PrivateKeyI) *node {
	nodeMu.Lock() // p2p.New writes package-level timeouts; build nodes one at a time
	defer nodeMu.Unlock()
	cfg := lib.DefaultConfig()
	dir, e := os.MkdirTemp(scratchDir, "node")
	if e != nil {
		panic(e)
	}
	cfg.DataDirPath = dir
	cfg.ListenAddress = ":0"
	return &node{p: p2p.New(priv, 1, nil, cfg, lib.NewNullLogger()), priv: priv, pub: priv.PublicKey().Bytes()}
}

func newWorld() *world {
	w := &world{recv: newNode(), senders: []*node{newNode(), newNode()}, parked: make(chan struct{}), timer: time.NewTimer(time.Hour)}
	w.timer.Stop()
	return w
}

// BeforeStreamLock / BeforeEnqueue: scheduling points, called on the sender's goroutine.
func (w *world) BeforeStreamLock(c *p2p.MultiConn, topic lib.Topic, packets []*p2p.Packet) {
	if w.free {
		return
	}
	t := w.cur
	t.at, t.topic, t.link, t.pktIdx = atLock, topic, w.linkOf(c), 0
	w.parked <- struct{}{}
	<-t.resume
}

func (w *world) BeforeEnqueue(c *p2p.MultiConn, topic lib.Topic, packet *p2p.Packet) {
	if w.free {
		return
	}
	t := w.cur
	t.at, t.topic, t.link = atEnq, topic, w.linkOf(c)
	w.parked <- struct{}{}
	<-t.resume
}

func (w *world) linkOf(c *p2p.MultiConn) int {
	for i, l := range w.links {
		if l.sc == c {
			return i
		}
	}
	panic("c18 harness: hook called for a connection of another world")
}

// setup builds nLinks fresh connections sender[i] -> receiver and starts the REAL receive
// service of every receiving MultiConn on its own goroutine.
func (w *world) setup(nLinks int, ops [][]*sendOp) {
	w.links, w.threads, w.wire, w.cur = nil, nil, nil, nil
	for t := lib.Topic(0); t <= K.HeartbeatTopic; t++ {
		if n := len(w.recv.p.Inbox(t)); n != 0 {
			panic(fmt.Sprintf("c18 harness: inbox %v not empty at start (%d)", t, n))
		}
	}
	for i := 0; i < nLinks; i++ {
		l := &link{mirror: map[lib.Topic][]string{}}
		l.sconn, l.rconn = newMemPipe(fmt.Sprintf("mem-sender%d", i), fmt.Sprintf("mem-receiver%d", i))
		// the receiver knows the remote as sender i; the sender knows the remote as the receiver
		l.info = &lib.PeerInfo{Address: &lib.PeerAddress{PublicKey: w.senders[i].pub, NetAddress: string(l.sconn.local), PeerMeta: &lib.PeerMeta{ChainId: 1}}}
		rinfo := &lib.PeerInfo{Address: &lib.PeerAddress{PublicKey: w.recv.pub, NetAddress: string(l.rconn.local), PeerMeta: &lib.PeerMeta{ChainId: 1}}, IsOutbound: true}
		l.sc = p2p.VerifC18NewMultiConn(w.senders[i].p, l.sconn, rinfo, w, func(err error) {
			w.errMu.Lock()
			l.sErr = append(l.sErr, errClass(err))
			w.errMu.Unlock()
		})
		l.rc = p2p.VerifC18NewMultiConn(w.recv.p, l.rconn, l.info, nil, func(err error) {
			w.errMu.Lock()
			l.rErr = append(l.rErr, errClass(err))
			w.errMu.Unlock()
		})
		l.drainer = p2p.VerifC18NewDrainer(l.sc)
		go func() {
			l.rc.VerifC18RunReceiveService()
			l.rconn.rd.markReaderDone()
		}()
		w.links = append(w.links, l)
	}
	for i, o := range ops {
		w.threads = append(w.threads, &thread{id: i, ops: o, resume: make(chan struct{})})
	}
	for _, l := range w.links {
		l.rconn.rd.waitIdle()
	}
}

func errClass(err error) string {
	s := err.Error()
	if i := strings.Index(s, "\n"); i >= 0 {
		s = s[:i]
	}
	if e, ok := err.(lib.ErrorI); ok {
		return fmt.Sprintf("%s/%d", e.Module(), e.Code())
	}
	return s
}

func (w *world) teardown() {
	for _, l := range w.links {
		l.drainer.Close()
		l.sc.Stop()
		l.rc.Stop()
		l.rconn.rd.waitReaderDone()
		p2p.VerifC18Release(l.sc)
	}
	// drop anything left in the inboxes (only after a violation)
	for t := lib.Topic(0); t <= K.HeartbeatTopic; t++ {
		for len(w.recv.p.Inbox(t)) > 0 {
			<-w.recv.p.Inbox(t)
		}
	}
}

const hangLimit = 120 * time.Second

func (w *world) waitParked() {
	w.timer.Reset(hangLimit)
	select {
	case <-w.parked:
		if !w.timer.Stop() {
			select {
			case <-w.timer.C:
			default:
			}
		}
	case <-w.timer.C:
		buf := make([]byte, 1<<20)
		n := runtime.Stack(buf, true)
		fmt.Fprintf(os.Stderr, "HARNESS-ERROR C18: a resumed sender did not reach a scheduling point or finish within %v (blocked outside the controlled points)\n%s\n", hangLimit, buf[:n])
		os.Exit(3)
	}
}

func (w *world) startThreads() {
	for _, t := range w.threads {
		t := t
		go func() {
			<-t.resume
			for t.cur = 0; t.cur < len(t.ops); t.cur++ {
				op := t.ops[t.cur]
				op.ok = w.links[op.Link].sc.Send(op.Topic, op.msg.payload)
				op.ran = true
			}
			t.at = atDone
			w.parked <- struct{}{}
		}()
		w.step(t) // runs up to the first scheduling point (code before it touches only locals)
	}
}

// step resumes a parked thread and waits until it parks again or finishes.
func (w *world) step(t *thread) {
	w.cur = t
	if t.at == atEnq {
		op := t.ops[t.cur]
		l := w.links[t.link]
		l.mirror[t.topic] = append(l.mirror[t.topic], fmt.Sprintf("m%d.%d", op.msg.id, t.pktIdx))
		t.pktIdx++
	}
	t.resume <- struct{}{}
	w.waitParked()
}

func (w *world) enabled(t *thread) bool {
	switch t.at {
	case atDone:
		return false
	case atLock:
		return w.links[t.link].sc.VerifC18StreamLockFree(t.topic)
	}
	return true
}

type qid struct {
	link  int
	topic lib.Topic
}

func (w *world) nonEmptyQueues() (qs []qid) {
	for i, l := range w.links {
		for t := lib.Topic(0); t <= K.HeartbeatTopic; t++ {
			if l.sc.VerifC18QueueLen(t) > 0 {
				qs = append(qs, qid{i, t})
			}
		}
	}
	return
}

// drain performs one step of the send service for (link, topic) and waits for the receiver
// to have processed the packet.
func (w *world) drain(q qid) {
	l := w.links[q.link]
	if !l.drainer.DrainOne(q.topic) {
		panic("c18 harness: drain of an empty queue")
	}
	tag := "?"
	if m := l.mirror[q.topic]; len(m) > 0 {
		tag, l.mirror[q.topic] = m[0], m[1:]
	}
	w.wire = append(w.wire, fmt.Sprintf("L%d:T%d:%s", q.link, q.topic, tag))
	l.rconn.rd.waitIdle()
	if w.gcEvery > 0 {
		if w.drains++; w.drains%w.gcEvery == 0 {
			runtime.GC() // recycle the per-packet buffers (size-limit cases run without a pacer)
		}
	}
}

// ---------------------------------------------------------------------------------------
// observation + oracle

type delivered struct {
	topic  lib.Topic
	sender *lib.PeerInfo
	msg    []byte
}

func (w *world) readInboxes() (out []delivered) {
	for t := lib.Topic(0); t <= K.HeartbeatTopic; t++ {
		ch := w.recv.p.Inbox(t)
	loop:
		for {
			select {
			case m := <-ch:
				out = append(out, delivered{t, m.Sender, m.Message})
			default:
				break loop
			}
		}
	}
	return
}

type finding struct {
	sig, what string
}

type outcome struct {
	findings  []finding
	obs       string // full observation (determinism comparison)
	delivery  string // per-topic delivery order
	wire      string
	delivered int
}

// judge compares what the receiver's inboxes hold with what was handed to Send.
// expectClosed: the execution contained over-limit / malformed traffic on that link.
func (w *world) judge(all []*sendOp, got []delivered, expectDelivered func(op *sendOp) bool) outcome {
	var o outcome
	used := make([]bool, len(all))
	var dl []string
	linkOfInfo := func(pi *lib.PeerInfo) int {
		for i, l := range w.links {
			if l.info == pi {
				return i
			}
		}
		return -1
	}
	pos := map[*sendOp]int{}
	var order []string
	for gi, d := range got {
		li := linkOfInfo(d.sender)
		match := -1
		for i, op := range all {
			if !used[i] && op.Topic == d.topic && op.Link == li && len(op.msg.payload) == len(d.msg) && bytes.Equal(op.msg.payload, d.msg) {
				match = i
				break
			}
		}
		if match >= 0 {
			used[match] = true
			pos[all[match]] = gi
			dl = append(dl, fmt.Sprintf("T%d<L%d:%s/%d", d.topic, li, all[match].msg.hash, len(d.msg)))
			order = append(order, fmt.Sprintf("T%d:m%d", d.topic, all[match].msg.id))
			// attribution: the PeerInfo the receiver authenticated for this connection, with its key
			if d.sender == nil || d.sender.Address == nil || !bytes.Equal(d.sender.Address.PublicKey, w.senders[li].pub) {
				o.findings = append(o.findings, finding{"C18:misattributed", fmt.Sprintf("message m%d delivered on topic %d with a sender that is not the authenticated peer of its connection", all[match].msg.id, d.topic)})
			}
			continue
		}
		h := sha256.Sum256(d.msg)
		hs := hex.EncodeToString(h[:8])
		dl = append(dl, fmt.Sprintf("T%d<L%d:%s/%d", d.topic, li, hs, len(d.msg)))
		order = append(order, fmt.Sprintf("T%d:?%s", d.topic, hs))
		o.findings = append(o.findings, w.classify(all, d, li, hs))
	}
	if len(o.findings) == 0 {
		for i, op := range all {
			if !used[i] && expectDelivered(op) {
				o.findings = append(o.findings, finding{"C18:lost:no-fault", fmt.Sprintf("message m%d (%d bytes, %d packets) handed to Send on link %d topic %d (Send returned %v) never reached the inbox although nothing failed; receiver errors=%v sender errors=%v",
					op.msg.id, op.Size, packetsOf(op.Size), op.Link, op.Topic, op.ok, w.links[op.Link].rErr, w.links[op.Link].sErr)})
			}
		}
		// program-order FIFO: two sends of one goroutine on the same link and topic
		for _, t := range w.threads {
			for i := 0; i < len(t.ops); i++ {
				for j := i + 1; j < len(t.ops); j++ {
					a, b := t.ops[i], t.ops[j]
					pa, oka := pos[a]
					pb, okb := pos[b]
					if a.Link == b.Link && a.Topic == b.Topic && oka && okb && pa > pb {
						o.findings = append(o.findings, finding{"C18:fifo:program-order", fmt.Sprintf("m%d was sent (Send returned) before m%d by the same goroutine on link %d topic %d but was delivered after it", a.msg.id, b.msg.id, a.Link, a.Topic)})
					}
				}
			}
		}
	}
	sort.Strings(dl)
	o.delivered = len(got)
	o.delivery = strings.Join(order, ",")
	o.wire = strings.Join(w.wire, ",")
	var errs []string
	for i, l := range w.links {
		errs = append(errs, fmt.Sprintf("L%d r=%v s=%v closed=%v", i, l.rErr, l.sErr, l.rconn.rd.isClosed()))
	}
	o.obs = "wire=" + o.wire + " | delivery=" + o.delivery + " | " + strings.Join(dl, ",") + " | " + strings.Join(errs, ";")
	return o
}

// classify names the way in which a delivered message that was never sent (on that topic, by
// that peer) differs from what was sent.
func (w *world) classify(all []*sendOp, d delivered, li int, hs string) finding {
	desc := fmt.Sprintf("inbox of topic %d holds %d bytes (sha256 %s…) attributed to link %d", d.topic, len(d.msg), hs, li)
	for _, op := range all {
		if bytes.Equal(op.msg.payload, d.msg) {
			if op.Topic != d.topic {
				return finding{"C18:wrong-topic", desc + fmt.Sprintf(": this is m%d, which was sent on topic %d", op.msg.id, op.Topic)}
			}
			if op.Link != li {
				return finding{"C18:misattributed", desc + fmt.Sprintf(": this is m%d, which was sent by the peer of link %d", op.msg.id, op.Link)}
			}
			return finding{"C18:duplicated", desc + fmt.Sprintf(": m%d was delivered more often than it was sent", op.msg.id)}
		}
	}
	// which messages do the bytes come from (high nibble = message id), in runs
	var runs []string
	ids := map[int]bool{}
	last := -1
	n := 0
	for _, b := range d.msg {
		id := int(b >> 4)
		if id != last {
			if last >= 0 {
				runs = append(runs, fmt.Sprintf("m%d×%d", last, n))
			}
			last, n = id, 0
		}
		n++
		ids[id] = true
	}
	if last >= 0 {
		runs = append(runs, fmt.Sprintf("m%d×%d", last, n))
	}
	if len(runs) > 8 {
		runs = append(runs[:8], "…")
	}
	topics := map[lib.Topic]bool{}
	links := map[int]bool{}
	for _, op := range all {
		if ids[op.msg.id] {
			topics[op.Topic] = true
			links[op.Link] = true
		}
	}
	switch {
	case len(ids) > 1 && len(links) > 1:
		return finding{"C18:merged:across-connections", desc + " made of bytes of several messages from different connections: " + strings.Join(runs, " ")}
	case len(ids) > 1 && len(topics) > 1:
		return finding{"C18:merged:across-topics", desc + " made of bytes of messages sent on different topics: " + strings.Join(runs, " ")}
	case len(ids) > 1:
		return finding{"C18:merged:same-topic-senders", desc + " made of bytes of several messages sent concurrently on the same topic: " + strings.Join(runs, " ")}
	case len(ids) == 1:
		for _, op := range all {
			if ids[op.msg.id] {
				if len(d.msg) < op.Size {
					return finding{"C18:truncated", desc + fmt.Sprintf(": a %d-byte piece of m%d (%d bytes, %d packets)", len(d.msg), op.msg.id, op.Size, packetsOf(op.Size))}
				}
				return finding{"C18:corrupted", desc + fmt.Sprintf(": bytes of m%d (%d bytes) but not equal to it", op.msg.id, op.Size)}
			}
		}
	}
	return finding{"C18:foreign-message", desc + ": matches nothing that was sent"}
}
