// C15 — BFT liveness under eventual synchrony. Every distinct state of the C01 round-level
// BFS is an adversarial prefix; from each, synchronous rounds (Byzantine node silent, and
// Byzantine node honest) are run on the real nodes until an honest node commits.
package main

import "verifharness/bftworld"

func main() { bftworld.Main("C15") }
