// C15 — BFT liveness under eventual synchrony.
// Part 1: every distinct state of the C01 round-level BFS is an adversarial prefix; from each,
// synchronous rounds (Byzantine node silent, and Byzantine node honest) are run on the real nodes
// until an honest node commits.
// Part 2: every message-level schedule with at most k deviations (message lost / one timer late /
// duplicated, root-height update reaching a single node) inside the first rounds is an adversarial
// prefix that leaves nodes at different rounds, phases, root heights and timer offsets; after it
// delivery is synchronous and an honest node must commit within the skew-derived round bound.
package main

import "verifharness/bftworld"

func main() {
	bftworld.PartFraction = 0.55 // the rest of the soft deadline belongs to part 2
	bftworld.Extra = realAdoption
	bftworld.ReplayHook = realAdoptionReplay
	bftworld.Main("C15")
}
