package main

// Part 3 — lock adoption on a REAL controller. The BFT world's mock controller stands in for
// controller.ValidateProposal; this part checks, with env.Node (real controller.Controller, real FSM, real
// bft.BFT behind it), the one place where the leader's vote handling reaches into the controller: an
// ELECTION_VOTE that reports a lock. The lock is a genuine +2/3 PROPOSE_VOTE certificate of a proposal the
// node itself produced; the vote carries the root-chain build height of that proposal, or a wrong one.
//   - with the right build height the lock must be adopted (the leader will re-propose it);
//   - with another build height the lock is adopted IF AND ONLY IF a replica (a second real node on the same
//     chain) accepts the re-proposal with that height (the cheap lower bound of StartProposeVotePhase and
//     controller.ValidateProposal); adopting a lock whose re-proposal every replica refuses is the lock veto of
//     finding F11 (on this own-root chain the certificate results do not depend on the build height, so only
//     heights below the last committee update are refused; on a nested chain more are);
//   - in all cases the working state of the node is what it was (validating inside vote handling must not
//     leave the speculative block behind).

import (
	"bytes"
	"fmt"

	"github.com/canopy-network/canopy/bft"
	"github.com/canopy-network/canopy/fsm"
	"github.com/canopy-network/canopy/lib"

	"verifharness/bftworld"
	"verifharness/env"
	"verifharness/mc"
)

func realAdoption(r *mc.Run, cov map[string]any) {
	acc := map[int]uint64{}
	for _, k := range []int{0, 1, 2, 3, 10, 11} {
		acc[k] = 10_000_000
	}
	var vals []env.ValSpec
	for k := 0; k < 4; k++ {
		vals = append(vals, env.ValSpec{Key: k, Stake: 1_000_000, OutputKey: -1})
	}
	g := env.NewGenesis(acc, vals, nil)
	outcomes := map[string]int{}
	cases := 0
	for _, blocks := range []int{0, 2} { // at height 1 and on a chain that already has two blocks
		for _, delta := range []int64{0, +1, -1, +1000, -1 << 40} {
			cases++
			name := fmt.Sprintf("chain-of-%d-blocks:build-height%+d", blocks, delta)
			class, viol := adoptionCase(g, blocks, delta)
			outcomes[class]++
			if viol != "" {
				r.Violation("C15:lock-adoption:"+class, name+": "+viol, map[string]any{"part": "real-adoption", "blocks": blocks, "delta": delta})
			}
		}
	}
	nv, no := bftworld.NextHeightStart()
	for _, v := range nv {
		r.OnViol(v)
	}
	cov["next_height_start"] = no
	fmt.Printf("part 4 (real BFT.Start loop, start of the next height): %v\n", no)
	cov["real_controller_lock_adoption_cases"] = cases
	cov["real_controller_lock_adoption_outcomes"] = outcomes
	fmt.Printf("part 3 (real controller, lock adoption): %d cases, outcomes %v\n", cases, outcomes)
}

// realAdoptionReplay re-runs one case of part 3 five times.
func realAdoptionReplay(r *mc.Run) bool {
	var rp struct {
		Part   string `json:"part"`
		Blocks int    `json:"blocks"`
		Delta  int64  `json:"delta"`
	}
	if err := r.LoadReplay(&rp); err != nil || rp.Part != "real-adoption" {
		return false
	}
	acc := map[int]uint64{}
	for _, k := range []int{0, 1, 2, 3, 10, 11} {
		acc[k] = 10_000_000
	}
	var vals []env.ValSpec
	for k := 0; k < 4; k++ {
		vals = append(vals, env.ValSpec{Key: k, Stake: 1_000_000, OutputKey: -1})
	}
	g := env.NewGenesis(acc, vals, nil)
	outcomes := map[string]int{}
	for i := 0; i < 5; i++ {
		class, viol := adoptionCase(g, rp.Blocks, rp.Delta)
		outcomes[class+"|"+viol]++
		if viol != "" && i == 0 {
			r.Violation("C15:lock-adoption:"+class, viol, nil)
		}
	}
	fmt.Println("replay outcomes (5 runs):", outcomes)
	if len(outcomes) != 1 {
		fmt.Println("HARNESS ERROR: replay is not deterministic")
	}
	r.Finish(map[string]any{"states": 1, "transitions": 5, "traces_validated_against_impl": 5})
	return true
}

func adoptionCase(g *fsm.GenesisState, blocks int, delta int64) (class, viol string) {
	A, err := env.NewNode(g, env.NodeOpts{Name: "A", Key: 0})
	if err != nil {
		return "harness", "node: " + err.Error()
	}
	defer A.Close()
	B, err := env.NewNode(g, env.NodeOpts{Name: "B", Key: 1})
	if err != nil {
		return "harness", "node: " + err.Error()
	}
	defer B.Close()
	for i := 0; i < blocks; i++ {
		A.SubmitTxs(mustTx(fsm.NewSendTransaction(env.BLS(10), env.Addr(env.BLS(11)), 100+uint64(i), env.NetworkID, env.ChainID, 10000, A.Height(), "")))
		p, e := A.Propose()
		if e != nil {
			return "harness", "propose: " + e.Error()
		}
		qc, e := A.Certify(p, 0, nil, 0)
		if e != nil {
			return "harness", "certify: " + e.Error()
		}
		for _, n := range []*env.Node{A, B} {
			msg, e2 := env.WireCopy(&lib.BlockMessage{ChainId: env.ChainID, BlockAndCertificate: qc, Time: 1_700_000_000_000_000})
			if e2 != nil {
				return "harness", e2.Error()
			}
			if e = n.HandlePeerBlock(msg, false); e != nil {
				return "harness", "commit: " + e.Error()
			}
		}
	}
	A.SubmitTxs(mustTx(fsm.NewSendTransaction(env.BLS(10), env.Addr(env.BLS(11)), 777, env.NetworkID, env.ChainID, 10000, A.Height(), "")))
	p, e := A.Propose()
	if e != nil {
		return "harness", "propose: " + e.Error()
	}
	b := A.Ctrl.Consensus
	before, e2 := env.StateKey(A.Ctrl.FSM)
	if e2 != nil {
		return "harness", e2.Error()
	}
	vs, e := A.Committee(p.RCBuildHeight)
	if e != nil {
		return "harness", e.Error()
	}
	// the lock: +2/3 PROPOSE_VOTE certificate of round 0 for the proposal, signed by the whole committee
	lockView := &lib.View{NetworkId: A.Cfg.NetworkID, ChainId: A.Cfg.ChainId, Height: b.Height, RootHeight: b.RootHeight, Round: 0, Phase: lib.Phase_PROPOSE_VOTE}
	lock, e := env.SignQC(vs, &lib.QuorumCertificate{Header: lockView, BlockHash: p.Block.BlockHeader.Hash, ResultsHash: p.Results.Hash(), ProposerKey: env.BLS(0).PublicKey().Bytes()}, nil)
	if e != nil {
		return "harness", e.Error()
	}
	lock.Block, lock.Results = p.BlockBytes, p.Results
	// the leader (A) is in round 1, collecting election votes
	b.Round, b.Phase = 1, lib.Phase_ELECTION_VOTE
	b.HighQC = nil
	rc := uint64(int64(p.RCBuildHeight) + delta)
	if int64(p.RCBuildHeight)+delta < 0 {
		rc = 0
	}
	vote := &bft.Message{Qc: &lib.QuorumCertificate{Header: &lib.View{NetworkId: A.Cfg.NetworkID, ChainId: A.Cfg.ChainId, Height: b.Height, RootHeight: b.RootHeight, Round: 1, Phase: lib.Phase_ELECTION_VOTE},
		ProposerKey: env.BLS(0).PublicKey().Bytes()}, HighQc: lock, RcBuildHeight: rc}
	if e := vote.Sign(env.BLS(1)); e != nil {
		return "harness", e.Error()
	}
	// what a replica does with the re-proposal that carries this build height
	cd, e := B.Ctrl.LoadCommitteeData()
	if e != nil {
		return "harness", e.Error()
	}
	q := *p
	q.RCBuildHeight = rc
	_, verr := B.ValidateProposal(&q, 0, false)
	replicaOK := rc >= cd.LastRootHeightUpdated && verr == nil
	herr := b.HandleMessage(vote)
	adopted := b.HighQC != nil && bytes.Equal(b.HighQC.BlockHash, lock.BlockHash)
	after, e2 := env.StateKey(A.Ctrl.FSM)
	if e2 != nil {
		return "harness", e2.Error()
	}
	class = fmt.Sprintf("right-height=%v:replica-accepts-reproposal=%v:adopted=%v", delta == 0, replicaOK, adopted)
	if after != before {
		return class, "handling the election vote changed the node's working state (the speculative validation was not rolled back)"
	}
	if delta == 0 && !adopted {
		return class, fmt.Sprintf("a genuine lock reported with the build height of its proposal (%d) was not adopted: %v", p.RCBuildHeight, herr)
	}
	if adopted && !replicaOK {
		return class, fmt.Sprintf("a lock reported with build height %d (its proposal was built at %d) was adopted although a replica refuses the re-proposal with that height (%v): every re-proposal of the lock fails", rc, p.RCBuildHeight, verr)
	}
	if !adopted && replicaOK && delta != 0 {
		return class, fmt.Sprintf("a lock reported with build height %d was refused (%v) although replicas accept a re-proposal with that height", rc, herr)
	}
	return class, ""
}

func mustTx(tx lib.TransactionI, e lib.ErrorI) []byte {
	if e != nil {
		panic(e)
	}
	bz, e := lib.Marshal(tx)
	if e != nil {
		panic(e)
	}
	return bz
}
