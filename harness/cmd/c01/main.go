// C01 — BFT agreement. Round-level explicit-state BFS over n real bft.BFT instances (see
// package bftworld): every transition is one whole consensus round executed through
// HandlePhase / HandleMessage / NewHeight under a round scenario; oracle: all commit
// observations of honest nodes at the height carry the same (block hash, results hash).
// A second, message-level deviation-bounded search follows.
package main

import "verifharness/bftworld"

func main() {
	bftworld.PartFraction = 0.6 // Search 1 may use 60 % of the soft deadline; the rest belongs to Search 2
	bftworld.Main("C01")
}
