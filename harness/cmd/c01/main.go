// C01 — BFT agreement. Round-level explicit-state BFS over n real bft.BFT instances (see
// package bftworld): every transition is one whole consensus round executed through
// HandlePhase / HandleMessage / NewHeight under a round scenario; oracle: all commit
// observations of honest nodes at the height carry the same (block hash, results hash).
package main

import "verifharness/bftworld"

func main() { bftworld.Main("C01") }
