// C05 — authorization: a transaction changes state only if it carries a valid signature,
// over exactly its content, by a key the message's rules authorize.
//
// Exhaustive grid (exploration): message type (16) x signing kind (BLS, ed25519, secp256k1,
// eth-secp256k1, BLS account multisig 2-of-3 with 1/2/3 cosigners, RLP and RLP.V2 Ethereum
// wrappers) x target object (none, custodial validator, non-custodial validator, open order,
// locked order ...) x signer role (owner/operator, output address, another validator, stranger,
// seller, non-seller, certificate proposer, non-proposer) x mode (honest, stranger claiming
// the owner's public key, re-signed certificate with a swapped proposer key). Every case is
// put alone in a block and applied on a copy of a real chain (block path: batch verifier in
// ApplyBlock; single path: FSM.ApplyTransaction / FSM.CheckTx with a nil batch verifier),
// with the process-wide signature cache cold and warm, and the full raw state is diffed
// against the same chain with an empty block. Every authorized successful transaction is
// then tampered with, one field at a time, after signing.
//
// The reference authorization relation is written from the property text over the harness'
// own record of who owns what in the genesis (txlab.World); canopy's GetAuthorizedSignersFor
// is never consulted.
package main

import (
	"bytes"
	"encoding/hex"
	"flag"
	"fmt"
	"os"
	"runtime/pprof"
	"sort"
	"strings"
	"time"

	"github.com/canopy-network/canopy/fsm"
	"github.com/canopy-network/canopy/lib"
	"github.com/canopy-network/canopy/lib/crypto"

	"verifharness/env"
	"verifharness/mc"
	"verifharness/txlab"
)

// ---------------------------------------------------------------------------------------
// case space

var kinds = []string{txlab.KBLS, txlab.KED, txlab.KSECP, txlab.KETH, txlab.KMS1, txlab.KMS2, txlab.KMS3, txlab.KRLP, txlab.KRLPV2}

var roles = []string{"owner", "output", "otherval", "stranger", "seller", "nonseller", "proposer", "nonproposer"}

func targetsFor(msg string) []string {
	switch msg {
	case fsm.MessageStakeName:
		return []string{"fresh", "custodial"}
	case fsm.MessageEditStakeName:
		return []string{"fresh", "custodial", "noncustodial", "noncustodial-redirect"}
	case fsm.MessageUnstakeName, fsm.MessagePauseName, fsm.MessageUnpauseName:
		return []string{"fresh", "custodial", "noncustodial"}
	case fsm.MessageEditOrderName, fsm.MessageDeleteOrderName:
		return []string{"fresh", "order-open", "order-locked"}
	}
	return []string{"fresh"}
}

// ---------------------------------------------------------------------------------------
// tampering (wire level, after signing)

var msgFieldKinds = map[string]string{
	fsm.MessageSendName: "bbvvvv", fsm.MessageStakeName: "bvrsbvvb", fsm.MessageEditStakeName: "bvrsbvb",
	fsm.MessageUnstakeName: "b", fsm.MessagePauseName: "b", fsm.MessageUnpauseName: "b",
	fsm.MessageChangeParameterName: "ssmvvbs", fsm.MessageDAOTransferName: "bvvvvs", fsm.MessageCertificateResultsName: "m",
	fsm.MessageSubsidyName: "bvvb", fsm.MessageCreateOrderName: "vbvvbbb", fsm.MessageEditOrderName: "bvbvvb", fsm.MessageDeleteOrderName: "bv",
	fsm.MessageDexLimitOrderName: "vvvbb", fsm.MessageDexLiquidityDepositName: "vvbb", fsm.MessageDexLiquidityWithdrawName: "vvbb",
}

type tamper struct {
	id    string
	class string
	raw   []byte
	mut   func(m *txlab.Msg)
}

// tamperPairs composes every unordered pair of single-field tampers (thorough tier).
func tamperPairs(b *txlab.Built, ts []tamper) []tamper {
	root, err := txlab.Parse(b.Raw, txlab.TxSchema, "")
	if err != nil {
		return nil
	}
	var out []tamper
	seen := map[string]bool{string(b.Raw): true}
	for i := range ts {
		for j := i + 1; j < len(ts); j++ {
			c := root.Clone()
			ts[i].mut(c)
			ts[j].mut(c)
			raw := c.Encode()
			if seen[string(raw)] {
				continue
			}
			seen[string(raw)] = true
			out = append(out, tamper{id: "pair:" + ts[i].id + "&" + ts[j].id, class: "pair", raw: raw})
		}
	}
	return out
}

func flipLast(b []byte) []byte {
	c := append([]byte{}, b...)
	if len(c) == 0 {
		return []byte{1}
	}
	c[len(c)-1] ^= 0x01
	return c
}

// setField replaces (or appends) the single occurrence of a field.
func setField(m *txlab.Msg, f *txlab.Field) {
	for i, x := range m.Fields {
		if x.Num == f.Num {
			m.Fields[i] = f
			return
		}
	}
	m.Fields = append(m.Fields, f)
	sort.SliceStable(m.Fields, func(i, j int) bool { return m.Fields[i].Num < m.Fields[j].Num })
}

func tampers(l *txlab.Lab, b *txlab.Built) []tamper {
	root, err := txlab.Parse(b.Raw, txlab.TxSchema, "")
	if err != nil {
		return nil
	}
	base := txlab.BaseKind(b.ID.Kind)
	p := l.W.P[base]
	var out []tamper
	add := func(id, class string, mut func(m *txlab.Msg)) {
		c := root.Clone()
		mut(c)
		raw := c.Encode()
		if !bytes.Equal(raw, b.Raw) {
			out = append(out, tamper{id: id, class: class, raw: raw, mut: mut})
		}
	}
	// every top-level field
	for _, n := range txlab.TxVarintFields {
		n := n
		add("tx."+txlab.TxFieldName[n]+"+1", "tx-field", func(m *txlab.Msg) {
			v := uint64(0)
			if f := m.Get(n); f != nil {
				v = f.Varint
			}
			setField(m, &txlab.Field{Num: n, WT: txlab.WTVarint, Varint: v + 1})
		})
	}
	for _, n := range txlab.TxStringFields {
		n := n
		add("tx."+txlab.TxFieldName[n]+"+x", "tx-field", func(m *txlab.Msg) {
			var v []byte
			if f := m.Get(n); f != nil {
				v = f.Bytes
			}
			setField(m, &txlab.Field{Num: n, WT: txlab.WTBytes, Bytes: append(append([]byte{}, v...), 'x')})
		})
	}
	for _, memo := range []string{fsm.RLPIndicator, fsm.RLPV2Indicator} {
		memo := memo
		add("tx.memo="+memo, "tx-field", func(m *txlab.Msg) { setField(m, &txlab.Field{Num: 7, WT: txlab.WTBytes, Bytes: []byte(memo)}) })
	}
	add("tx.msg.type_url", "tx-field", func(m *txlab.Msg) {
		a := m.At([]uint64{2})
		setField(a, &txlab.Field{Num: 1, WT: txlab.WTBytes, Bytes: append(append([]byte{}, a.Get(1).Bytes...), 'x')})
	})
	// every message field (present: changed; absent: injected)
	inner, err := txlab.Parse(root.At([]uint64{2}).Get(2).Bytes, nil, "")
	if err == nil {
		ks := msgFieldKinds[b.ID.Msg]
		for i := 0; i < len(ks); i++ {
			num, k := uint64(i+1), ks[i]
			name := fmt.Sprintf("msg.f%d", num)
			mutInner := func(fn func(im *txlab.Msg)) func(m *txlab.Msg) {
				return func(m *txlab.Msg) {
					im := inner.Clone()
					fn(im)
					setField(m.At([]uint64{2}), &txlab.Field{Num: 2, WT: txlab.WTBytes, Bytes: im.Encode()})
				}
			}
			present := inner.Get(num) != nil
			switch k {
			case 'v':
				add(name+"+1", "msg-field", mutInner(func(im *txlab.Msg) {
					v := uint64(0)
					if f := im.Get(num); f != nil {
						v = f.Varint
					}
					setField(im, &txlab.Field{Num: num, WT: txlab.WTVarint, Varint: v + 1})
				}))
			case 'b':
				if present {
					add(name+"^1", "msg-field", mutInner(func(im *txlab.Msg) {
						setField(im, &txlab.Field{Num: num, WT: txlab.WTBytes, Bytes: flipLast(im.Get(num).Bytes)})
					}))
					// redirect to another principal's address / another order
					for _, alt := range []struct {
						n string
						v []byte
					}{{"X", p[txlab.PX].Addr}, {"other-order", l.W.OrderID(base, "other")}} {
						alt := alt
						add(name+"="+alt.n, "msg-field", mutInner(func(im *txlab.Msg) {
							setField(im, &txlab.Field{Num: num, WT: txlab.WTBytes, Bytes: alt.v})
						}))
					}
				} else {
					// fields that PopulateSpecialMessageFields overwrites (Signer, OrderId) and other absent ones
					for _, alt := range []struct {
						n string
						v []byte
					}{{"A", p[txlab.PA].Addr}, {"X", p[txlab.PX].Addr}, {"open-order", l.W.OrderID(base, "open")}} {
						alt := alt
						add(name+":="+alt.n, "msg-overwritten-field", mutInner(func(im *txlab.Msg) {
							setField(im, &txlab.Field{Num: num, WT: txlab.WTBytes, Bytes: alt.v})
						}))
					}
				}
			case 's':
				add(name+"+x", "msg-field", mutInner(func(im *txlab.Msg) {
					var v []byte
					if f := im.Get(num); f != nil {
						v = f.Bytes
					}
					setField(im, &txlab.Field{Num: num, WT: txlab.WTBytes, Bytes: append(append([]byte{}, v...), 'x')})
				}))
			case 'r':
				add(name+"+item", "msg-field", mutInner(func(im *txlab.Msg) {
					var v []byte
					if f := im.Get(num); f != nil {
						v = f.Bytes
					}
					setField(im, &txlab.Field{Num: num, WT: txlab.WTBytes, Bytes: append(append([]byte{}, v...), 3)})
				}))
			case 'm':
				add(name+"^1", "msg-field", mutInner(func(im *txlab.Msg) {
					if f := im.Get(num); f != nil {
						setField(im, &txlab.Field{Num: num, WT: txlab.WTBytes, Bytes: flipLast(f.Bytes)})
					}
				}))
			}
		}
	}
	// the signature block
	sigSet := func(num uint64, v []byte) func(m *txlab.Msg) {
		return func(m *txlab.Msg) { setField(m.At([]uint64{3}), &txlab.Field{Num: num, WT: txlab.WTBytes, Bytes: v}) }
	}
	origSig := root.At([]uint64{3}).Get(2).Bytes
	add("sig.signature^1", "signature", sigSet(2, flipLast(origSig)))
	add("sig.signature^first", "signature", func(m *txlab.Msg) {
		c := append([]byte{}, origSig...)
		c[0] ^= 0x80
		sigSet(2, c)(m)
	})
	add("sig.signature-truncated", "signature", sigSet(2, origSig[:len(origSig)-1]))
	add("sig.signature-zero", "signature", sigSet(2, make([]byte, len(origSig))))
	// public key swapped for another key of the same kind and of different kinds
	swap := map[string][]byte{}
	if same, ok := p[txlab.PX]; ok {
		swap["same-kind:"+base] = same.Pub
		if base == "ms" {
			pub, _ := same.SignAs([]byte("x"), txlab.MsPositions(b.ID.Kind))
			swap["same-kind:"+base] = pub
		}
	}
	for _, k := range txlab.BaseKinds {
		if k != base {
			swap["other-kind:"+k] = l.W.P[k][txlab.PX].Pub
		}
	}
	// another kind of key for the SAME secp256k1 scalar (eth <-> secp256k1 share the curve)
	if base == txlab.KETH || base == txlab.KSECP {
		if e := b.Actual.ECDSA(); e != nil {
			if base == txlab.KETH {
				k, _ := crypto.BytesToSECP256K1Private(b.Actual.Priv.Bytes())
				swap["same-scalar:secp256k1"] = k.PublicKey().Bytes()
			} else {
				k, _ := crypto.BytesToEthSECP256K1Private(b.Actual.Priv.Bytes())
				swap["same-scalar:eth"] = k.PublicKey().Bytes()
			}
		}
	}
	names := make([]string, 0, len(swap))
	for n := range swap {
		names = append(names, n)
	}
	sort.Strings(names)
	for _, n := range names {
		add("sig.public_key="+n, "public-key-swap", sigSet(1, swap[n]))
	}
	add("sig.public_key^1", "public-key-swap", sigSet(1, flipLast(root.At([]uint64{3}).Get(1).Bytes)))
	if base == "ms" {
		// the multisig policy itself is part of the (unsigned) public key: lower the threshold, claim more signers
		if mk, err := txlab.Parse(root.At([]uint64{3}).Get(1).Bytes, nil, ""); err == nil {
			for _, th := range []uint64{0, 1, 3} {
				c := mk.Clone()
				var kept []*txlab.Field
				for _, f := range c.Fields {
					if f.Num != 3 {
						kept = append(kept, f)
					}
				}
				c.Fields = kept
				if th != 0 {
					c.Fields = append(c.Fields, &txlab.Field{Num: 3, WT: txlab.WTVarint, Varint: th})
				}
				add(fmt.Sprintf("sig.public_key.threshold=%d", th), "multisig-policy", sigSet(1, c.Encode()))
			}
			for _, bm := range []byte{0x07, 0x01, 0x04} {
				c := mk.Clone()
				if f := c.Get(2); f != nil && !bytes.Equal(f.Bytes, []byte{bm}) {
					f.Bytes = []byte{bm}
					add(fmt.Sprintf("sig.public_key.bitmap=%02x", bm), "multisig-policy", sigSet(1, c.Encode()))
				}
			}
		}
	}
	return out
}

// ---------------------------------------------------------------------------------------
// worker

type Job struct {
	Kind     string        `json:"kind"`
	Msg      string        `json:"msg"`
	Thorough bool          `json:"thorough"`
	Confirm  *txlab.CaseID `json:"confirm,omitempty"`  // commit-confirm job
	Want     string        `json:"want,omitempty"`     // expected diff digest of the probe
	Seq      uint64        `json:"seq,omitempty"`      // sequence number the probe used (time / fee entropy)
	Only     *txlab.CaseID `json:"only,omitempty"`     // replay of one case
	Deadline int64         `json:"deadline,omitempty"` // unix ms after which the worker stops and reports a partial result
	Revoke   bool          `json:"revoke,omitempty"`   // same-block revocation part (see runRevoke)
}

var deadlineMs int64

func late() bool { return deadlineMs > 0 && time.Now().UnixMilli() > deadlineMs }

func jobDeadline(r *mc.Run, quick, thorough time.Duration) int64 {
	b := quick
	if !r.Quick() {
		b = thorough
	}
	if f := flag.Lookup("budget"); f != nil {
		if d, err := time.ParseDuration(f.Value.String()); err == nil && d > 0 {
			b = d
		}
	}
	// workers stop a little before the parent's soft deadline so that in-flight probes finish inside it
	return time.Now().Add(b * 85 / 100).UnixMilli()
}

type Result struct {
	Evaluations   int            `json:"evaluations"`
	Cases         int            `json:"cases"`
	Tampered      int            `json:"tampered"`
	NA            int            `json:"na"`
	AuthSuccess   int            `json:"auth_success"`
	AuthSuccessID []txlab.CaseID `json:"auth_success_ids,omitempty"`
	AuthDigests   []string       `json:"auth_digests,omitempty"`
	AuthSeq       []uint64       `json:"auth_seq,omitempty"`
	Outcomes      map[string]int `json:"outcomes"`
	Parts         map[string]int `json:"parts"`
	Viols         []mc.Viol      `json:"viols,omitempty"`
	Samples       []any          `json:"samples,omitempty"`
	CPUms         int64          `json:"cpu_ms"`
	Err           string         `json:"err,omitempty"`
	Partial       bool           `json:"partial,omitempty"`
	LabMs         int64          `json:"lab_ms,omitempty"` // time spent creating the chain (once per worker)
}

var (
	lab        *txlab.Lab
	baseBlock  []env.KV
	baseSingle []env.KV
)

func ensureLab() error {
	if lab != nil {
		return nil
	}
	l, err := txlab.NewLab(txlab.NewWorld(), 2, nil)
	if err != nil {
		return err
	}
	pr := l.ProbeBlock(nil, false)
	if pr.Err != "" {
		l.Close()
		return fmt.Errorf("empty block probe: %s", pr.Err)
	}
	lab, baseBlock, baseSingle = l, pr.State, l.CurrentState()
	return nil
}

func dropLab() {
	if lab != nil {
		lab.Close()
		lab = nil
	}
}

type evalOut struct {
	path    string
	cache   string
	changed bool
	diff    []txlab.Change
	err     string
	state   []env.KV // block path only
}

// evaluate runs one byte string through every path with the cache cold and warm.
// primers are byte strings an attacker can derive from raw WITHOUT any further signature and that may
// verify in another context: the same content and signature under a multisig key whose (unsigned) policy
// asks for fewer signers. Such a key belongs to a different account, so the primer itself must not move
// anything (it is judged as a tampered variant elsewhere); what matters here is that whatever the node
// remembers from verifying it must not make raw acceptable afterwards.
func primers(raw []byte) (out [][]byte) {
	root, err := txlab.Parse(raw, txlab.TxSchema, "")
	if err != nil || root.At([]uint64{3}) == nil || root.At([]uint64{3}).Get(1) == nil {
		return nil
	}
	mk, err := txlab.Parse(root.At([]uint64{3}).Get(1).Bytes, nil, "")
	if err != nil || mk.Get(2) == nil || len(mk.Fields) < 2 {
		return nil // not a serialized multisig key
	}
	for _, th := range []uint64{1, 0} {
		c := mk.Clone()
		var kept []*txlab.Field
		for _, f := range c.Fields {
			if f.Num != 3 {
				kept = append(kept, f)
			}
		}
		c.Fields = kept
		if th != 0 {
			c.Fields = append(c.Fields, &txlab.Field{Num: 3, WT: txlab.WTVarint, Varint: th})
		}
		r2 := root.Clone()
		setField(r2.At([]uint64{3}), &txlab.Field{Num: 1, WT: txlab.WTBytes, Bytes: c.Encode()})
		if bz := r2.Encode(); !bytes.Equal(bz, raw) {
			out = append(out, bz)
		}
	}
	return
}

func evaluate(raw []byte, paths []string, blockWarm bool) []evalOut {
	var outs []evalOut
	prim := primers(raw)
	for _, path := range paths {
		crypto.SignatureCache.Reset()
		for _, cache := range []string{"cold", "warm"} {
			if path == "block" && cache == "warm" && !blockWarm {
				continue
			}
			if cache == "warm" {
				// between the cold and the warm evaluation the attacker shows the node its primers
				for _, pr := range prim {
					switch path {
					case "block":
						lab.ProbeBlock([][]byte{pr}, false)
					case "single":
						lab.ProbeSingle(pr)
					case "checktx":
						lab.CheckTxSingle(pr)
					}
				}
			}
			o := evalOut{path: path, cache: cache}
			switch path {
			case "block":
				pr := lab.ProbeBlock([][]byte{raw}, false)
				switch {
				case pr.Err != "":
					o.err = "block refused: " + pr.Err
					o.diff = nil
				default:
					if len(pr.Failed) > 0 {
						o.err = pr.Failed[0]
					}
					o.diff = txlab.Diff(baseBlock, pr.State)
					o.state = pr.State
				}
			case "single":
				after, e := lab.ProbeSingle(raw)
				o.err = e
				if after != nil {
					o.diff = txlab.Diff(baseSingle, after)
				}
			case "checktx":
				o.err = lab.CheckTxSingle(raw)
			}
			o.changed = len(o.diff) > 0
			outs = append(outs, o)
		}
	}
	return outs
}

// fineOracle: no account is debited and no validator / order is altered unless the wire
// signer is the owner of that object.
func fineOracle(b *txlab.Built, diff []txlab.Change) string {
	w := lab.W
	for _, c := range diff {
		segs := txlab.KeySegments(c.Key)
		if len(segs) < 2 || len(segs[0]) != 1 {
			continue
		}
		switch segs[0][0] {
		case 1:
			o, n := new(fsm.Account), new(fsm.Account)
			_ = lib.Unmarshal(c.Old, o)
			_ = lib.Unmarshal(c.New, n)
			addr := segs[len(segs)-1]
			if n.Amount < o.Amount && !bytes.Equal(addr, b.WireAddr) {
				return fmt.Sprintf("account %x debited %d -> %d by a transaction of %x", addr, o.Amount, n.Amount, b.WireAddr)
			}
		case 3:
			if b.ID.Msg == fsm.MessageCertificateResultsName {
				continue
			}
			addr := segs[len(segs)-1]
			if vi, ok := w.Vals[hex.EncodeToString(addr)]; ok {
				if !bytes.Equal(vi.Operator.Addr, b.WireAddr) && !bytes.Equal(vi.Output.Addr, b.WireAddr) {
					return fmt.Sprintf("validator %s altered by %x (neither operator nor output)", vi.Operator.Name, b.WireAddr)
				}
			} else if c.New != nil {
				n := new(fsm.Validator)
				_ = lib.Unmarshal(c.New, n)
				if !bytes.Equal(n.Address, b.WireAddr) && !bytes.Equal(n.Output, b.WireAddr) {
					return fmt.Sprintf("validator %x created by %x (neither operator nor output)", addr, b.WireAddr)
				}
			}
		case 13:
			if b.ID.Msg == fsm.MessageCertificateResultsName {
				continue
			}
			oid := segs[len(segs)-1]
			if os, ok := w.Orders[hex.EncodeToString(oid)]; ok {
				seller := w.P[os.Kind][os.Seller]
				if !bytes.Equal(seller.Addr, b.WireAddr) {
					return fmt.Sprintf("order %x of %s altered by %x", oid, seller.Name, b.WireAddr)
				}
			} else if c.New != nil {
				n := new(lib.SellOrder)
				_ = lib.Unmarshal(c.New, n)
				if !bytes.Equal(n.SellersSendAddress, b.WireAddr) {
					return fmt.Sprintf("order %x created with seller %x by %x", oid, n.SellersSendAddress, b.WireAddr)
				}
			}
		}
	}
	return ""
}

func kindClass(kind string) string { return kind }

func judge(res *Result, b *txlab.Built, raw []byte, tam *tamper, outs []evalOut) {
	id := b.ID
	okRef := b.Authorized() && b.SigValid && tam == nil
	for _, o := range outs {
		res.Evaluations++
		key := fmt.Sprintf("%s|changed=%v|%s", o.path, o.changed || (o.path == "checktx" && o.err == ""), txlab.ErrClass(o.err))
		res.Outcomes[key]++
		replay := map[string]any{"case": id, "path": o.path, "cache": o.cache, "tx_hex": hex.EncodeToString(raw), "error": txlab.ShortErr(o.err)}
		accepted := o.changed
		if o.path == "checktx" {
			accepted = o.err == ""
		}
		if o.path == "checktx" && id.Mode == txlab.ModeClaim {
			// CheckTx only matches the signer against the proposer key on the wire; whether the
			// committee certified that key is decided when the message is handled (the certificate's
			// aggregate signature covers the proposer key). Admission changes no state: information only.
			res.Parts["info:checktx-admits-relabelled-certificate-before-qc-verification"]++
			continue
		}
		if o.path == "checktx" && id.Target == "noncustodial-redirect" && accepted && !okRef && b.SigValid && tam == nil {
			// CheckTx admits an edit-stake signed by the operator; that the operator may not name a new
			// output address is decided when the message is handled. Admission changes no state: information only.
			res.Parts["info:checktx-admits-operator-signed-output-redirect-before-handler"]++
			continue
		}
		if accepted && !okRef {
			var sig, why string
			switch {
			case tam != nil:
				id2 := id
				id2.Tamper = tam.id
				replay["case"] = id2
				sig = fmt.Sprintf("C05:tampered-tx-accepted:%s:%s:%s", id.Msg, tam.class, o.path)
				why = "transaction tampered after signing (" + tam.id + ")"
			case !b.SigValid:
				sig = fmt.Sprintf("C05:invalid-signature-accepted:%s:%s:%s:%s", id.Msg, kindClass(id.Kind), id.Mode, o.path)
				why = "the signature is not a valid signature of the wire key over this content (by construction)"
			default:
				sig = fmt.Sprintf("C05:unauthorized-signer-accepted:%s:%s:%s:%s", id.Msg, id.Role, id.Target, o.path)
				why = fmt.Sprintf("signer %s (%x) is not in the reference authorized set %v", b.Actual.Name, b.WireAddr, names(b.Auth))
			}
			res.Viols = append(res.Viols, mc.Viol{Sig: sig, What: fmt.Sprintf("%s path=%s cache=%s: %s; state diff: %v", id, o.path, o.cache, why, txlab.DescribeDiff(o.diff, lab.W)), Replay: replay})
		}
		if o.path != "checktx" && o.err != "" && o.changed {
			res.Viols = append(res.Viols, mc.Viol{Sig: fmt.Sprintf("C05:rejected-tx-changes-state:%s:%s", id.Msg, o.path),
				What: fmt.Sprintf("%s path=%s cache=%s rejected with %q but state differs from the empty block: %v", id, o.path, o.cache, txlab.ShortErr(o.err), txlab.DescribeDiff(o.diff, lab.W)), Replay: replay})
		}
		if o.changed && okRef {
			if bad := fineOracle(b, o.diff); bad != "" {
				res.Viols = append(res.Viols, mc.Viol{Sig: fmt.Sprintf("C05:foreign-object-touched:%s:%s", id.Msg, id.Role),
					What: fmt.Sprintf("%s path=%s: %s; diff %v", id, o.path, bad, txlab.DescribeDiff(o.diff, lab.W)), Replay: replay})
			}
		}
	}
}

func names(ss []*txlab.Signer) []string {
	var o []string
	for _, s := range ss {
		o = append(o, s.Name)
	}
	return o
}

func modesFor(msg, role string) []string {
	m := []string{txlab.ModeHonest}
	if role == "stranger" {
		m = append(m, txlab.ModeForge)
	}
	if role == "owner" || role == "output" {
		m = append(m, txlab.ModeWire)
	}
	if msg == fsm.MessageCertificateResultsName && (role == "stranger" || role == "nonproposer" || role == "otherval") {
		m = append(m, txlab.ModeClaim)
	}
	return m
}

var allPaths = []string{"block", "single", "checktx"}

func runJob(j Job) (res Result) {
	start := time.Now()
	res.Outcomes, res.Parts = map[string]int{}, map[string]int{}
	defer func() { res.CPUms = time.Since(start).Milliseconds() }()
	deadlineMs = j.Deadline
	if j.Confirm != nil {
		return runConfirm(j)
	}
	if j.Revoke {
		return runRevoke(j)
	}
	labStart := time.Now()
	fresh := lab == nil
	if err := ensureLab(); err != nil {
		res.Err = err.Error()
		return
	}
	if fresh {
		res.LabMs = time.Since(labStart).Milliseconds()
	}
	seq := uint64(0)
	for _, target := range targetsFor(j.Msg) {
		for _, role := range roles {
			for _, mode := range modesFor(j.Msg, role) {
				id := txlab.CaseID{Msg: j.Msg, Kind: j.Kind, Target: target, Role: role, Mode: mode}
				if j.Only != nil && (id.Target != j.Only.Target || id.Role != j.Only.Role || id.Mode != j.Only.Mode) {
					continue
				}
				seq++
				if late() {
					res.Partial = true
					return
				}
				b := txlab.Build(lab, id, seq)
				if b.NA != "" {
					res.NA++
					res.Parts["na:"+b.NA]++
					continue
				}
				res.Cases++
				res.Parts["base:"+j.Msg]++
				blockWarm := j.Thorough || txlab.BaseKind(j.Kind) == txlab.KED
				outs := evaluate(b.Raw, allPaths, blockWarm)
				judge(&res, b, b.Raw, nil, outs)
				blockChanged := outs[0].changed
				if len(res.Samples) < 2 && (blockChanged || role == "stranger") {
					res.Samples = append(res.Samples, map[string]any{"case": id.String(), "authorized_ref": b.Authorized(), "sig_valid_ref": b.SigValid,
						"block_path": txlab.ShortErr(outs[0].err), "changed": blockChanged, "diff": txlab.DescribeDiff(outs[0].diff, lab.W), "tx_hex": hex.EncodeToString(b.Raw)})
				}
				if !(blockChanged && b.Authorized() && b.SigValid) {
					if b.Authorized() && b.SigValid {
						res.Parts["authorized-but-rejected:"+txlab.ErrClass(outs[0].err)]++
					}
					continue
				}
				res.AuthSuccess++
				res.Parts["auth-success:"+j.Msg]++
				res.AuthSuccessID = append(res.AuthSuccessID, id)
				res.AuthDigests = append(res.AuthDigests, txlab.DiffDigest(outs[0].diff))
				res.AuthSeq = append(res.AuthSeq, seq)
				// tamper every field of the authorized, successful transaction
				ts := tampers(lab, b)
				if j.Only != nil && j.Only.Tamper != "" {
					var keep []tamper
					for _, t := range ts {
						if t.id == j.Only.Tamper {
							keep = append(keep, t)
						}
					}
					ts = keep
				}
				touts := make([][]evalOut, len(ts))
				one := func(path, cache string, raw []byte) evalOut {
					o := evalOut{path: path, cache: cache}
					if path == "block" {
						pr := lab.ProbeBlock([][]byte{raw}, false)
						if pr.Err != "" {
							o.err = "block refused: " + pr.Err
						} else {
							if len(pr.Failed) > 0 {
								o.err = pr.Failed[0]
							}
							o.diff = txlab.Diff(baseBlock, pr.State)
						}
					} else {
						after, e := lab.ProbeSingle(raw)
						o.err = e
						if after != nil {
							o.diff = txlab.Diff(baseSingle, after)
						}
					}
					o.changed = len(o.diff) > 0
					return o
				}
				// Series: the cache is reset (and for "warm" re-filled by verifying the valid original)
				// once per series; a rejected signature stores nothing, so the cache content is the
				// same for every member of a series unless a tampered variant verifies — which is
				// reported — and then the cache is rebuilt.
				// The block path reaches the cache through the same VerifyBytes as the single path for
				// every kind but ed25519 (explicit look-ups in the batch verifier): quick runs
				// block+warm only there, thorough everywhere.
				firstOfJob := res.AuthSuccess == 1
				for _, se := range []struct{ path, cache string }{{"block", "cold"}, {"block", "warm"}, {"single", "cold"}, {"single", "warm"}} {
					if se.path == "block" && !j.Thorough {
						// quick: individual block-path probes for the first authorized success of the job
						// (every later one goes through the batched blocks below); warm only for ed25519
						if !firstOfJob || (se.cache == "warm" && txlab.BaseKind(j.Kind) != txlab.KED) {
							continue
						}
					}
					prime := func() {
						crypto.SignatureCache.Reset()
						if se.cache == "warm" {
							if se.path == "block" {
								lab.ProbeBlock([][]byte{b.Raw}, false)
							} else {
								lab.ProbeSingle(b.Raw)
							}
						}
					}
					prime()
					for i, t := range ts {
						if late() {
							res.Partial = true
							break
						}
						o := one(se.path, se.cache, t.raw)
						touts[i] = append(touts[i], o)
						if o.err == "" {
							prime()
						}
					}
				}
				// batched blocks: (1) all tampered variants together — the block must equal the empty
				// block; (2) the valid original followed by all tampered variants — one batch holding
				// good and bad signatures (batch-fail fallback) must equal the block with the original alone.
				if len(ts) > 0 && j.Only == nil {
					var all [][]byte
					for _, t := range ts {
						all = append(all, t.raw)
					}
					for _, mixed := range []bool{false, true} {
						crypto.SignatureCache.Reset()
						txs, want, label := all, baseBlock, "block-batch"
						if mixed {
							txs, want, label = append([][]byte{b.Raw}, all...), outs[0].state, "block-batch-mixed"
						}
						pr := lab.ProbeBlock(txs, false)
						res.Evaluations++
						res.Parts[label]++
						wantIncluded := 0
						if mixed {
							wantIncluded = 1
						}
						var d []txlab.Change
						if pr.Err == "" {
							d = txlab.Diff(want, pr.State)
						}
						res.Outcomes[fmt.Sprintf("%s|changed=%v|included=%d", label, len(d) > 0, pr.Included-wantIncluded)]++
						if pr.Err != "" || len(d) > 0 || pr.Included != wantIncluded {
							res.Viols = append(res.Viols, mc.Viol{Sig: fmt.Sprintf("C05:tampered-tx-accepted:%s:%s", id.Msg, label),
								What: fmt.Sprintf("%s: a block holding %d tampered variants (mixed=%v) included %d transactions (want %d), err=%q, diff beyond the reference block: %v",
									id, len(all), mixed, pr.Included, wantIncluded, pr.Err, txlab.DescribeDiff(d, lab.W)),
								Replay: map[string]any{"case": id, "path": label}})
						}
					}
				}
				for i := range ts {
					res.Tampered++
					res.Parts["tamper:"+ts[i].class]++
					judge(&res, b, ts[i].raw, &ts[i], touts[i])
				}
				if j.Thorough && firstOfJob && j.Only == nil {
					crypto.SignatureCache.Reset()
					for _, t := range tamperPairs(b, ts) {
						if late() {
							res.Partial = true
							break
						}
						t := t
						res.Tampered++
						res.Parts["tamper:pair"]++
						judge(&res, b, t.raw, &t, []evalOut{one("single", "cold", t.raw)})
					}
				}
			}
		}
	}
	return
}

// runRevoke: authority that is withdrawn INSIDE a block. T1 is the edit-stake by which the output key of a
// non-custodial validator hands the output address to somebody else; T2 (unstake / pause / edit-stake) is signed
// by that former output key. Each is authorized and succeeds when alone in a block. In the block [T1, T2] the
// rules authorize T2 no longer when it executes: the block must equal the block [T1]. (The reverse order [T2, T1]
// is authorized throughout and is only counted.)
func runRevoke(j Job) (res Result) {
	res.Outcomes, res.Parts = map[string]int{}, map[string]int{}
	if err := ensureLab(); err != nil {
		res.Err = err.Error()
		return
	}
	id1 := txlab.CaseID{Msg: fsm.MessageEditStakeName, Kind: j.Kind, Target: "noncustodial-redirect", Role: "output", Mode: txlab.ModeHonest}
	b1 := txlab.Build(lab, id1, 9001)
	if b1.NA != "" {
		res.NA++
		res.Parts["revoke:na:"+b1.NA]++
		return
	}
	crypto.SignatureCache.Reset()
	p1 := lab.ProbeBlock([][]byte{b1.Raw}, false)
	res.Evaluations++
	if p1.Err != "" || p1.Included != 1 {
		res.Parts["revoke:hand-over-not-applicable"]++
		return
	}
	for n, m2 := range []string{fsm.MessageUnstakeName, fsm.MessagePauseName, fsm.MessageEditStakeName} {
		id2 := txlab.CaseID{Msg: m2, Kind: j.Kind, Target: "noncustodial", Role: "output", Mode: txlab.ModeHonest}
		b2 := txlab.Build(lab, id2, 9002+uint64(n))
		if b2.NA != "" {
			res.NA++
			continue
		}
		crypto.SignatureCache.Reset()
		p2 := lab.ProbeBlock([][]byte{b2.Raw}, false)
		res.Evaluations++
		if p2.Err != "" || p2.Included != 1 {
			res.Parts["revoke:second-tx-not-valid-alone:"+m2]++
			continue
		}
		res.Cases++
		for _, warm := range []bool{false, true} {
			crypto.SignatureCache.Reset()
			if warm {
				lab.ProbeBlock([][]byte{b2.Raw}, false) // the node verified T2's signature before (mempool)
			}
			pr := lab.ProbeBlock([][]byte{b1.Raw, b2.Raw}, false)
			res.Evaluations++
			var d []txlab.Change
			if pr.Err == "" {
				d = txlab.Diff(p1.State, pr.State)
			}
			res.Outcomes[fmt.Sprintf("revoke|%s|included=%d|differs-from-handover-alone=%v", m2, pr.Included, len(d) > 0)]++
			res.Parts["revoke:"+m2]++
			if pr.Err != "" || pr.Included != 1 || len(d) > 0 {
				res.Viols = append(res.Viols, mc.Viol{Sig: "C05:revoked-signer-accepted:" + m2,
					What: fmt.Sprintf("kind %s: block [edit-stake by the output key handing the output address over, %s signed by that FORMER output key] included %d transactions (want 1), err=%q, diff beyond the hand-over alone: %v",
						j.Kind, m2, pr.Included, pr.Err, txlab.DescribeDiff(d, lab.W)),
					Replay: map[string]any{"revoke": true, "kind": j.Kind}})
			}
		}
		crypto.SignatureCache.Reset()
		rev := lab.ProbeBlock([][]byte{b2.Raw, b1.Raw}, false)
		res.Evaluations++
		res.Outcomes[fmt.Sprintf("revoke-reverse-order|%s|included=%d", m2, rev.Included)]++
	}
	return
}

// runConfirm re-runs one authorized successful case through the real commit path
// (env.Chain.Step: proposer ApplyBlock on a copy, replica ApplyBlock on the main FSM, QC,
// IndexBlock, Commit) on fresh chains and compares the state diff with the probe's.
func runConfirm(j Job) (res Result) {
	res.Outcomes, res.Parts = map[string]int{}, map[string]int{}
	dropLab()
	states := [2][]env.KV{}
	for i := 0; i < 2; i++ {
		l, err := txlab.NewLab(txlab.NewWorld(), 2, nil)
		if err != nil {
			res.Err = err.Error()
			return
		}
		var txs [][]byte
		if i == 1 {
			b := txlab.Build(l, *j.Confirm, j.Seq)
			if b.NA != "" {
				l.Close()
				res.Err = "confirm case not buildable: " + b.NA
				return
			}
			txs = [][]byte{b.Raw}
		}
		cm, e := l.C.Step(env.BlockSpec{Proposer: 0, Txs: txs})
		if e != nil {
			l.Close()
			res.Err = "step: " + e.Error()
			return
		}
		if i == 1 && (len(cm.Failed) != 0 || len(cm.BlockResult.Transactions) != 1) {
			res.Parts["confirm-not-included"]++
		}
		states[i] = l.CurrentState()
		l.Close()
	}
	res.Evaluations = 2
	got := txlab.DiffDigest(txlab.Diff(states[0], states[1]))
	if got == j.Want {
		res.Parts["confirm-ok"]++
	} else {
		res.Parts["confirm-mismatch"]++
		res.Err = fmt.Sprintf("commit path diff %s != probe diff %s for %s", got, j.Want, j.Confirm)
	}
	return
}

// ---------------------------------------------------------------------------------------

func main() {
	if mc.IsWorker() {
		mc.ServeWorker(runJob)
	}
	if oj := os.Getenv("VERIF_ONEJOB"); oj != "" { // development aid: VERIF_ONEJOB=send/bls runs one job in-process
		parts := strings.SplitN(oj, "/", 2)
		if pf := os.Getenv("VERIF_PROF"); pf != "" {
			f, _ := os.Create(pf)
			_ = pprof.StartCPUProfile(f)
			defer pprof.StopCPUProfile()
		}
		res := runJob(Job{Msg: parts[0], Kind: parts[1]})
		fmt.Printf("cases=%d na=%d auth=%d tampered=%d evals=%d ms=%d err=%s\n", res.Cases, res.NA, res.AuthSuccess, res.Tampered, res.Evaluations, res.CPUms, res.Err)
		for k, v := range res.Parts {
			fmt.Println("  part", k, v)
		}
		for _, v := range res.Viols {
			fmt.Println("  VIOL", v.Sig, v.What)
		}
		return
	}
	r := mc.Start("C05", "exploration", 85*time.Second, 25*time.Minute)
	r.Assumptions = []string{
		"ownership (who operates / receives for which validator, who sells which order, who proposed the certificate) is the harness' own genesis record, the world is static: genesis + 2 empty blocks, cases are applied at height 3",
		"every case is a block with exactly one transaction applied on a copy of the FSM with proposer semantics (the first half of env.Chain.Step); one authorized case per job is re-run through the full commit path and must give the same diff",
		"signature validity of a case is known by construction (who signed what), not re-computed with canopy's verifiers",
		"governance transactions (changeParameter, daoTransfer) name their sender in the message; validator approval of proposals is node configuration (accept-all here) and outside this property",
		"non-BLS validator principals are delegates (only delegates may carry non-BLS keys)",
		"one chain per worker process at a time",
	}
	if r.Replay != "" {
		doReplay(r)
		return
	}
	var jobs []Job
	// kind-major order: if the deadline cuts the run, every message type has been covered for the
	// kinds that were reached
	dl := jobDeadline(r, 85*time.Second, 25*time.Minute)
	for _, k := range kinds {
		for _, m := range txlab.MsgTypes {
			jobs = append(jobs, Job{Kind: k, Msg: m, Thorough: !r.Quick(), Deadline: dl})
		}
	}
	for _, k := range kinds {
		jobs = append(jobs, Job{Kind: k, Revoke: true, Deadline: dl})
	}
	t0 := time.Now()
	resplit := resplitProbe(r)
	fmt.Printf("cache re-split probe: %d tuples in %.1fs\n", resplit, time.Since(t0).Seconds())
	pool := mc.NewProcPool(0)
	results, crashed := mc.Map[Job, Result](pool, jobs, r.Expired)
	gridWall := time.Since(t0).Seconds()
	tot := Result{Outcomes: map[string]int{}, Parts: map[string]int{}}
	perKind := map[string]int{}
	authPerMsgKind := map[string]int{}
	var confirm []Job
	var cpu, labMs, labMax int64
	done, partial := 0, 0
	for i, res := range results {
		if crashed[i] {
			r.Violation("C05:worker-crash:"+jobs[i].Msg, fmt.Sprintf("worker died twice on job %+v", jobs[i]), jobs[i])
			continue
		}
		if res == nil {
			continue
		}
		done++
		if res.Err != "" {
			r.Note("job %s/%s: %s", jobs[i].Msg, jobs[i].Kind, res.Err)
			r.Exhaustive = false
		}
		if res.Partial {
			partial++
			r.Exhaustive = false
		}
		tot.Evaluations += res.Evaluations
		tot.Cases += res.Cases
		tot.Tampered += res.Tampered
		tot.NA += res.NA
		tot.AuthSuccess += res.AuthSuccess
		cpu += res.CPUms
		labMs += res.LabMs
		if res.LabMs > labMax {
			labMax = res.LabMs
		}
		perKind[jobs[i].Kind] += res.Cases
		authPerMsgKind[jobs[i].Msg+"/"+txlab.BaseKind(jobs[i].Kind)] += res.AuthSuccess
		for k, v := range res.Outcomes {
			tot.Outcomes[k] += v
		}
		for k, v := range res.Parts {
			tot.Parts[k] += v
		}
		for _, v := range res.Viols {
			r.OnViol(v)
		}
		for _, s := range res.Samples {
			if i%23 == 0 {
				r.AddSample(s)
			}
		}
		// commit-confirm: quick = the first authorized success of every job, thorough = all
		for n, id := range res.AuthSuccessID {
			if r.Quick() && n > 0 {
				break
			}
			id := id
			confirm = append(confirm, Job{Confirm: &id, Want: res.AuthDigests[n], Seq: res.AuthSeq[n], Deadline: dl})
		}
	}
	if done < len(jobs) || partial > 0 {
		r.Expired()
		r.Note("deadline: %d of %d (message type, key kind) jobs ran, %d of them only partially", done, len(jobs), partial)
	}
	// non-vacuity: every message type must have an authorized state-changing success for BLS keys
	for _, m := range txlab.MsgTypes {
		if done == len(jobs) && partial == 0 && authPerMsgKind[m+"/"+txlab.KBLS] == 0 {
			r.Note("HARNESS GAP: no authorized successful %s transaction with BLS keys — the tamper stage never ran for it", m)
			r.Exhaustive = false
		}
	}
	cres, _ := mc.Map[Job, Result](pool, confirm, r.Expired)
	confirmed, mismatched := 0, 0
	for i, res := range cres {
		if res == nil {
			continue
		}
		tot.Evaluations += res.Evaluations
		if res.Parts["confirm-ok"] > 0 {
			confirmed++
		} else {
			mismatched++
			r.Note("commit-confirm %s: %s", confirm[i].Confirm, res.Err)
			r.Exhaustive = false
		}
	}
	distinct := tot.Cases + tot.Tampered
	fmt.Printf("C05 grid: %d base cases (+%d n/a), %d authorized successes, %d tampered variants, %d evaluations, %d distinct outcomes, commit-confirmed %d (mismatch %d), worker cpu %.1fs\n",
		tot.Cases, tot.NA, tot.AuthSuccess, tot.Tampered, tot.Evaluations, len(tot.Outcomes), confirmed, mismatched, float64(cpu)/1000)
	var ks []string
	for k := range tot.Outcomes {
		ks = append(ks, k)
	}
	sort.Strings(ks)
	for _, k := range ks {
		fmt.Printf("  outcome %-90s %d\n", k, tot.Outcomes[k])
	}
	authTable := map[string]int{}
	for k, v := range authPerMsgKind {
		if v > 0 {
			authTable[k] = v
		}
	}
	r.Finish(map[string]any{
		"evaluations":              tot.Evaluations,
		"distinct_nontrivial":      distinct,
		"rule":                     "distinct (message type, signing kind, target object, signer role, mode[, tamper]) inputs that were constructible and reached canopy (n/a combinations excluded); each is evaluated on block path, single-verifier path and CheckTx, signature cache cold and warm",
		"base_cases":               tot.Cases,
		"not_applicable":           tot.NA,
		"authorized_successes":     tot.AuthSuccess,
		"tampered_variants":        tot.Tampered,
		"distinct_outcomes":        len(tot.Outcomes),
		"outcomes":                 tot.Outcomes,
		"per_part":                 tot.Parts,
		"base_cases_per_kind":      perKind,
		"authorized_success_table": authTable,
		"commit_confirmed":         confirmed,
		"commit_confirm_mismatch":  mismatched,
		"jobs":                     len(jobs),
		"jobs_done":                done,
		"jobs_partial":             partial,
		"cache_resplit_probes":     resplit,
		"grid_wall_s":              gridWall,
		"chain_setup_s_total":      float64(labMs) / 1000,
		"chain_setup_s_max":        float64(labMax) / 1000,
		"worker_cpu_s":             float64(cpu) / 1000,
		"kinds":                    kinds,
		"roles":                    roles,
	})
}

// resplitProbe: the signature cache is keyed by public key, message and signature. A verified
// ed25519 tuple (pk32, m, sig) must not make the secp256k1 tuple (pk32||m[0], m[1:], sig) — the
// same bytes split elsewhere — count as verified (DESIGN F7). Pure crypto-level probe.
func resplitProbe(r *mc.Run) (probes int) {
	msg := make([]byte, 64)
	for i := range msg {
		msg[i] = byte(i + 1)
	}
	for i := 0; i < 4000 && probes < 3; i++ {
		k := env.ED(i)
		pub := k.PublicKey().Bytes()
		if pub[0] != 2 && pub[0] != 3 {
			continue
		}
		for b0 := 0; b0 < 256 && probes < 3; b0++ {
			msg[0] = byte(b0)
			pk33 := append(append([]byte{}, pub...), msg[0])
			k2, err := crypto.NewPublicKeyFromBytes(pk33)
			if err != nil {
				continue
			}
			crypto.SignatureCache.Reset()
			sig := k.Sign(msg)
			if !k.PublicKey().VerifyBytes(msg, sig) {
				continue
			}
			probes++
			if k2.VerifyBytes(msg[1:], sig) {
				r.Violation("C05:signature-cache:resplit-accepts-unverified-signature",
					fmt.Sprintf("after verifying ed25519 (pk=%x, msg=%x) the secp256k1 key %x accepts the signature %x over msg[1:] (never signed)", pub, msg, pk33, sig),
					map[string]any{"ed_key_index": i, "msg0": b0})
			}
			break
		}
	}
	crypto.SignatureCache.Reset()
	return
}

func doReplay(r *mc.Run) {
	var rp struct {
		Case   txlab.CaseID `json:"case"`
		Revoke bool         `json:"revoke"`
		Kind   string       `json:"kind"`
	}
	if err := r.LoadReplay(&rp); err != nil {
		fmt.Println("cannot load replay:", err)
		r.Finish(map[string]any{"evaluations": 0, "distinct_nontrivial": 0, "rule": "replay"})
	}
	ev := 0
	if rp.Revoke {
		for i := 0; i < 5; i++ {
			res := runJob(Job{Kind: rp.Kind, Revoke: true})
			ev += res.Evaluations
			for _, v := range res.Viols {
				r.OnViol(v)
			}
			fmt.Printf("replay %d: revocation part, kind %s evaluations=%d violations=%d\n", i, rp.Kind, res.Evaluations, len(res.Viols))
		}
		r.Finish(map[string]any{"evaluations": ev, "distinct_nontrivial": 2, "rule": "replay of the revocation part for one key kind, 5 times"})
		return
	}
	for i := 0; i < 5; i++ {
		id := rp.Case
		res := runJob(Job{Kind: id.Kind, Msg: id.Msg, Only: &id})
		ev += res.Evaluations
		for _, v := range res.Viols {
			r.OnViol(v)
		}
		fmt.Printf("replay %d: %s evaluations=%d violations=%d\n", i, id, res.Evaluations, len(res.Viols))
	}
	_ = strings.TrimSpace
	r.Finish(map[string]any{"evaluations": ev, "distinct_nontrivial": 2, "rule": "replay of one case, 5 times"})
}
