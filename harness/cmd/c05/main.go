package main

import (
	"fmt"
	"time"

	"github.com/canopy-network/canopy/fsm"
	"github.com/canopy-network/canopy/lib/crypto"

	"verifharness/txlab"
)

func main() {
	w := txlab.NewWorld()
	t0 := time.Now()
	l, err := txlab.NewLab(w, 2, nil)
	if err != nil {
		panic(err)
	}
	defer l.Close()
	fmt.Println("lab", time.Since(t0), "height", l.C.Height())
	t0 = time.Now()
	base := l.ProbeBlock(nil, false)
	fmt.Println("empty probe", time.Since(t0), base.Err, len(base.State))
	for _, kind := range []string{txlab.KBLS, txlab.KED, txlab.KSECP, txlab.KETH, txlab.KMS1, txlab.KMS2, txlab.KMS3} {
		a := w.P[txlab.BaseKind(kind)][txlab.PA]
		tx := txlab.Unsigned(&fsm.MessageSend{FromAddress: a.Addr, ToAddress: w.Recipient, Amount: 1000}, txlab.TxOpts{Created: l.C.Height(), Time: 12345, Fee: 10000, Net: 1, Chain: 1})
		raw := txlab.SignNative(tx, a, txlab.MsPositions(kind))
		crypto.SignatureCache.Reset()
		t0 = time.Now()
		r := l.ProbeBlock([][]byte{raw}, false)
		d := txlab.Diff(base.State, r.State)
		fmt.Println(kind, time.Since(t0), r.Err, r.Failed, r.Included, txlab.DescribeDiff(d, w))
		t0 = time.Now()
		after, e := l.ProbeSingle(raw)
		fmt.Println("  single", time.Since(t0), e, len(txlab.Diff(l.CurrentState(), after)), "checktx:", l.CheckTxSingle(raw))
	}
	for _, v2 := range []bool{false, true} {
		a := w.P[txlab.KETH][txlab.PA]
		raw, _, err := txlab.WrapRLP(&fsm.MessageSend{FromAddress: a.Addr, ToAddress: w.Recipient, Amount: 1000}, a, v2, txlab.TxOpts{Created: l.C.Height(), Fee: 10000, Net: 1, Chain: 1, Nonce: 0})
		if err != nil {
			fmt.Println("wrap", err)
			continue
		}
		r := l.ProbeBlock([][]byte{raw}, false)
		fmt.Println("rlp v2=", v2, r.Err, r.Failed, r.Included, txlab.DescribeDiff(txlab.Diff(base.State, r.State), w))
	}
}
