#!/usr/bin/env python3
"""Regenerates MANIFEST.json from checks.json-like table below (single source of truth)."""
import json, sys
CHECKS = json.load(open('/verif/checks.json'))
ALL = ["C%02d" % i for i in range(1, 21)]
m = {
 "version": 1,
 "setup_cmd": "./setup.sh",
 "hooks": {
  "guard": "verif",
  "enable": "go build -tags verif (the harness module replaces github.com/canopy-network/canopy with /repo, so every check rebuilds from /repo's working tree)",
  "baseline_off_cmd": "for m in . plugin/go plugin/go/tutorial; do (cd /repo/$m && GOFLAGS=-mod=mod GOPROXY=off go test -vet=off -count=1 -timeout 25m ./...); done",
  "source_commits": CHECKS.get("hook_commits", []),
  "add_only": True
 },
 "engines": CHECKS["engines"],
 "checks": [],
 "notes": CHECKS.get("notes", ""),
 "not_applicable": []
}
claimed = set()
for c in CHECKS["checks"]:
    pid = c["property_id"]
    claimed.add(pid)
    m["checks"].append({
        "property_id": pid,
        "quick_cmd": "./check %s quick" % pid,
        "thorough_cmd": "./check %s thorough" % pid,
        "evidence_file": "/verif/evidence/%s.json" % pid,
        "replay_cmd_template": "./check %s quick --replay {path}" % pid,
        "engine": c["engine"],
        "level_claimed": {"category": c["level"], "text": c["text"], "design_ref": c.get("design_ref", "DESIGN.md §2 " + pid)},
        "level_note": c["note"],
        "technique": c["technique"],
    })
for pid in ALL:
    if pid not in claimed:
        m["not_applicable"].append({"property_id": pid, "reason": CHECKS.get("unclaimed", {}).get(pid, "check not built yet in this session (planned in DESIGN.md §2 %s); not claimed until it runs clean on the unchanged tree" % pid)})
json.dump(m, open('/verif/MANIFEST.json', 'w'), indent=1)
print("claimed:", sorted(claimed))
