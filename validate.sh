#!/bin/bash
# validates MANIFEST.json and every evidence file against the schemas
python3-vt - <<'PY'
import json,jsonschema,glob
jsonschema.validate(json.load(open('/verif/MANIFEST.json')), json.load(open('/root/.vp/MANIFEST.schema.json')))
print('MANIFEST valid')
s=json.load(open('/root/.vp/EVIDENCE.schema.json'))
for f in sorted(glob.glob('/verif/evidence/*.json')):
    try:
        jsonschema.validate(json.load(open(f)), s); print(f,'valid')
    except Exception as e:
        print(f,'INVALID',str(e)[:300])
PY
